"""C13 — clause nodes cover exactly the clause as written."""
import ast

from pyvc.core import source
from props import common, generic, tree_common as tc


def clause_tables(rep):
    from sqlparse import sql, tokens as T
    need = {'ORDER BY', 'GROUP BY', 'LIMIT', 'UNION', 'EXCEPT', 'HAVING', 'RETURNING', 'INTO'}
    have = set(sql.Where.M_CLOSE[1]) if isinstance(sql.Where.M_CLOSE[1], tuple) else {sql.Where.M_CLOSE[1]}
    common.structural(rep, 'C13/sqlparse.sql.Where.M_CLOSE/contains every closing keyword the property lists', 'sqlparse.sql.Where',
                      sql.Where.M_CLOSE[0] is T.Keyword and need <= have, {'missing': sorted(need - have)})
    # the lexer may emit a closing keyword together with a following word as ONE keyword token (UNION ALL): every such
    # phrase (finite phrase sets of the rules of the default lexer table, read off CPython's parse tree of each rule) must
    # be listed as well, otherwise the Where node runs past the clause the property says it ends at
    from pyvc import regexfacts
    first_words = {w.split(' ')[0] for w in need}
    missing = []
    for rx, action in common.default_lexer_rules():
        ph = regexfacts.phrases(rx) if rx is not None else None
        if not ph or not (isinstance(action, T._TokenType) and action in T.Keyword):
            continue
        for p_ in sorted(ph):
            if ' ' in p_ and p_.split(' ')[0] in first_words and p_ not in have:
                missing.append((rx, p_))
    common.structural(rep, 'C13/sqlparse.sql.Where.M_CLOSE/lists every multi-word keyword token that starts with a closing '
                      'keyword of the property', 'sqlparse.sql.Where', not missing, {'missing': missing})
    common.structural(rep, 'C13/sqlparse.sql.Where.M_CLOSE/constants are upper-case with single blanks (compared with the collapsed normalized value)',
                      'sqlparse.sql.Where', all(w == ' '.join(w.upper().split()) for w in have), {'have': sorted(have)})
    common.structural(rep, 'C13/sqlparse.sql.TypedLiteral/M_EXTEND lists the interval units', 'sqlparse.sql.TypedLiteral',
                      set(sql.TypedLiteral.M_EXTEND[1]) >= {'DAY', 'HOUR', 'MINUTE', 'MONTH', 'SECOND', 'YEAR'}, {})
    src = source()
    n = src.get('sqlparse.sql.IdentifierList.get_identifiers')
    txt = ast.unparse(n) if n else ''
    common.structural(rep, 'C13/IdentifierList.get_identifiers/yields the children that are neither whitespace nor a comma, in order',
                      'sqlparse.sql.IdentifierList.get_identifiers',
                      "for token in self.tokens:" in txt and "if not (token.is_whitespace or token.match(T.Punctuation, ',')):" in txt
                      and 'yield token' in txt, {}, undecided_if_false=True)
    n = src.get('sqlparse.sql.Comparison.left')
    n2 = src.get('sqlparse.sql.Comparison.right')
    common.structural(rep, 'C13/Comparison.left,right/are the first and last child', 'sqlparse.sql.Comparison',
                      n is not None and 'return self.tokens[0]' in ast.unparse(n) and n2 is not None
                      and 'return self.tokens[-1]' in ast.unparse(n2), {}, undecided_if_false=True)


def run(rep):
    common.load_contracts()
    from contracts.sql import C13_SHAPE_CASES
    from contracts.grouping import WHERE_SHAPE_CASES, JOINER_SHAPE_CASES, MORE_PASS_SHAPE_CASES, MORE_JOINER_SHAPE_CASES, DECORATED_WHERE_CASES
    return generic.run_generic(
        rep, tc.NAV_FUNCS + list(C13_SHAPE_CASES) + list(WHERE_SHAPE_CASES) + list(DECORATED_WHERE_CASES) + list(MORE_PASS_SHAPE_CASES) + list(MORE_JOINER_SHAPE_CASES) + [c for c in JOINER_SHAPE_CASES if 'identifier_list' in c[0]] + [(tc.GT, 'new group'), ('sqlparse.engine.grouping.group_where', 'call sites'),
                             ('sqlparse.engine.grouping.group_where', 'call sites, inside a bracket or block group'),
                             ('sqlparse.sql.IdentifierList.get_identifiers', 'body'),
                             ('sqlparse.sql.Comparison.left', 'total'), ('sqlparse.sql.Comparison.right', 'total')] + tc.JOINER_FUNCS,
        structural=[clause_tables, tc.identity_side_conditions],
        assumptions=['proved: the first-match search (token_next_by -> _token_matching) that finds the clause-closing keyword, '
                     'group_tokens creating exactly the requested span, group_where (indices, every WHERE becomes a node, and '
                     'the EXTENT of the clause: the grouped range starts at a WHERE keyword, contains no closing keyword behind '
                     'it and is directly followed by a closing keyword of Where.M_CLOSE or by the end of the list - resp. by the '
                     'closing delimiter when the clause stands inside a parenthesis / bracket / CASE / IF / FOR / BEGIN group), the '
                     'joiner _group with its passes (indices, recursion, no delimiter absorbed), get_identifiers (yields exactly '
                     'the children that are neither whitespace nor commas, in order), Comparison.left/right (first / last '
                     'child); Function.get_parameters() on the shapes f(), f(x), f(a, b), f(a, b, c) (arguments: nodes of the argument '
                     'classes or literal / wildcard leaves; separators comma + whitespace run) returns exactly the written '
                     'argument nodes in order (the generator get_identifiers is executed in place on the explicit list); '
                     'Case.get_cases(skip_ws=True) on CASE (WHEN c THEN v){1,2} [ELSE e] END returns exactly the written '
                     'WHEN/THEN/ELSE parts; group_where, group_identifier_list, group_functions, group_comparison, group_order, '
                     'group_operator, group_typecasts, group_assignment and group_comments '
                     'build exactly the written construct on explicit statements SELECT <construct> FROM t (shape cases); which '
                     'neighbours the other joiner passes accept, and the composition of the passes on '
                     'grammar scripts (that these shapes are what the grouping builds) are covered by data / shape obligations '
                     'and the bounded stand-in'],
        trusted=['CPython re engine'])


def replay(path):
    return generic.replay_generic('C13', path)
