"""C12 — identifier accessors return the written name, qualifier and alias."""
import ast

from pyvc.core import source
from props import common, generic, tree_common as tc


def accessor_shapes(rep):
    """(no longer used: superseded by the SMT shape cases of contracts/sql.py, which decide the accessors' results instead of
    looking for code fragments; kept for reference) shape obligations over the real accessor code"""
    src = source()
    checks = [
        ('sqlparse.sql.NameAliasMixin.get_real_name', ["self.token_next_by(m=(T.Punctuation, '.'))", 'self._get_first_name(dot_idx, real_name=True)']),
        ('sqlparse.sql.NameAliasMixin.get_alias', ["self.token_next_by(m=(T.Keyword, 'AS'))", 'self._get_first_name(kw_idx + 1, keywords=True)',
                                                   'self._get_first_name(reverse=True)']),
        ('sqlparse.sql.TokenList.get_name', ['self.get_alias() or self.get_real_name()']),
        ('sqlparse.sql.TokenList.has_alias', ['self.get_alias() is not None']),
        ('sqlparse.sql.TokenList.get_parent_name', ["self.token_next_by(m=(T.Punctuation, '.'))", 'self.token_prev(dot_idx)',
                                                    'remove_quotes(prev_.value) if prev_ is not None else None']),
        ('sqlparse.sql.TokenList._get_first_name', ['remove_quotes(token.value)', 'types = [T.Name, T.Wildcard, T.String.Symbol]']),
    ]
    for q, needles in checks:
        n = src.get(q)
        txt = ast.unparse(n) if n else ''
        missing = [x for x in needles if x not in txt]
        common.structural(rep, 'C12/%s/reads the children the property names (%d code facts)' % (q, len(needles)), q,
                          n is not None and not missing, {'missing': missing}, undecided_if_false=True)


def _expected_unquoted(v):
    if v is None:
        return None
    if v[0] in ('"', "'", '`') and v[0] == v[-1]:
        return v[1:-1]
    return v


def replay_remove_quotes(rep):
    """counter-models of the remove_quotes obligations replayed on the real function"""
    from pyvc.core import import_repo, FAILED
    import_repo()
    from sqlparse import utils
    for ob in rep.obls:
        if ob.status != FAILED or ob.fn != 'sqlparse.utils.remove_quotes':
            continue
        m = (ob.detail or {}).get('model') or {}
        v = (m.get('in_val') or {}).get('str')
        if not isinstance(v, str) or not v:
            continue
        try:
            got = utils.remove_quotes(v)
        except Exception as e:      # noqa
            got = 'raised %s' % type(e).__name__
        if got != _expected_unquoted(v):
            ob.witness = {'input': ('remove_quotes', v), 'failure': 'remove_quotes(%r) == %r, the property demands %r'
                          % (v, got, _expected_unquoted(v)), 'reproduced': True}


def run(rep):
    from contracts import sql as csql
    from contracts.grouping import JOINER_SHAPE_CASES, DECORATED_SHAPE_CASES
    return _run(rep, csql, list(JOINER_SHAPE_CASES) + list(DECORATED_SHAPE_CASES))


def _run(rep, csql, joiner_cases):
    return generic.run_generic(
        rep, [('sqlparse.utils.remove_quotes', None), ('sqlparse.utils.remove_quotes', 'None'),
              ('sqlparse.sql.TokenList.get_parent_name', None),
              ('sqlparse.sql.TokenList._get_first_name', 'first name, forward'),
              ('sqlparse.sql.TokenList._get_first_name', 'first name, reverse')] + list(csql.C12_SHAPE_CASES)
        + list(joiner_cases) + tc.NAV_FUNCS,
        structural=[replay_remove_quotes, tc.identity_side_conditions],
        assumptions=['proved: quote removal (against its specification function), get_parent_name (the qualifier is the '
                     'unquoted value of the nearest non-whitespace child before the first dot, None without one; children '
                     'values non-empty is the stated precondition, C01/I3), the neighbour-search helpers the accessors '
                     'are built from (first match, whitespace skipping), _get_first_name (forward from an index / reverse: '
                     'the first, resp. last, name leaf or nested Identifier/Function decides; loop invariant over the real '
                     'loop), and - the statement of C12 itself - get_real_name, get_parent_name, get_alias, has_alias and '
                     'get_name on the six Identifier shapes name | qualifier.name, each alone, with AS alias, with a bare '
                     'alias (name leaves Name or quoted Symbol with arbitrary values, whitespace runs arbitrary and '
                     'non-empty, the alias a nested Identifier as the grouping builds it): 30 shape cases, each result '
                     'equal to the unquoted written name / qualifier / alias / alias-or-name / alias presence',
                     'the passes that build these shapes are verified on explicit statements SELECT <construct> FROM t (names '
                     'and quoting arbitrary): group_period groups exactly qualifier . name, group_identifier a lone name, '
                     'group_as  name AS alias  into one Identifier whose last child is the alias Identifier, group_aliased  '
                     'name alias, group_identifier_list  a, b, c  (the joiner _group and _is_delimiter are executed in place '
                     'on the known children)',
                     'assumed (bounded stand-in only, 64 119 cases quick, 198 000 thorough): the composition of all passes in '
                     'every context the property quantifies over (JOIN, UPDATE / INSERT target, subquery)',
                     'str.strip(chars) is modelled only for a one-character argument (s == c* ++ result ++ c*)'],
        trusted=['CPython re engine (lexing of names and quotes)'])


def replay(path):
    import json
    d = json.load(open(path))
    inp = (d.get('witness') or {}).get('input')
    if isinstance(inp, list) and inp and inp[0] == 'remove_quotes':
        from pyvc.core import import_repo
        import_repo()
        from sqlparse import utils
        got = utils.remove_quotes(inp[1])
        print('remove_quotes(%r) -> %r ; demanded %r' % (inp[1], got, _expected_unquoted(inp[1])))
        return 1 if got != _expected_unquoted(inp[1]) else 0
    return generic.replay_generic('C12', path)
