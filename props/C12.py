"""C12 — identifier accessors return the written name, qualifier and alias."""
import ast

from pyvc.core import source
from props import common, generic, tree_common as tc


def accessor_shapes(rep):
    """shape obligations over the real accessor code (which child each accessor reads)"""
    src = source()
    checks = [
        ('sqlparse.sql.NameAliasMixin.get_real_name', ["self.token_next_by(m=(T.Punctuation, '.'))", 'self._get_first_name(dot_idx, real_name=True)']),
        ('sqlparse.sql.NameAliasMixin.get_alias', ["self.token_next_by(m=(T.Keyword, 'AS'))", 'self._get_first_name(kw_idx + 1, keywords=True)',
                                                   'self._get_first_name(reverse=True)']),
        ('sqlparse.sql.TokenList.get_name', ['self.get_alias() or self.get_real_name()']),
        ('sqlparse.sql.TokenList.has_alias', ['self.get_alias() is not None']),
        ('sqlparse.sql.TokenList.get_parent_name', ["self.token_next_by(m=(T.Punctuation, '.'))", 'self.token_prev(dot_idx)',
                                                    'remove_quotes(prev_.value) if prev_ is not None else None']),
        ('sqlparse.sql.TokenList._get_first_name', ['remove_quotes(token.value)', 'types = [T.Name, T.Wildcard, T.String.Symbol]']),
    ]
    for q, needles in checks:
        n = src.get(q)
        txt = ast.unparse(n) if n else ''
        missing = [x for x in needles if x not in txt]
        common.structural(rep, 'C12/%s/reads the children the property names (%d code facts)' % (q, len(needles)), q,
                          n is not None and not missing, {'missing': missing}, undecided_if_false=True)


def run(rep):
    return generic.run_generic(
        rep, [('sqlparse.utils.remove_quotes', None), ('sqlparse.utils.remove_quotes', 'None')] + tc.NAV_FUNCS,
        structural=[accessor_shapes, tc.identity_side_conditions],
        assumptions=['proved: quote removal, and the neighbour-search helpers the accessors are built from (first match, '
                     'whitespace skipping); the accessors themselves (get_real_name, get_alias, get_name, get_parent_name, '
                     'has_alias over the Identifier shapes of DESIGN 5 C12) and the grouping that establishes those shapes are '
                     'covered by shape obligations over the AST and by the bounded stand-in (64 119 cases quick, the full '
                     'product of 198 000 cases thorough), not yet by SMT contracts'],
        trusted=['CPython re engine (lexing of names and quotes)'])


def replay(path):
    return generic.replay_generic('C12', path)
