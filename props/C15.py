"""C15 — pathological nesting is reported as SQLParseError, never a crash."""
import ast

from pyvc import core, effects
from pyvc.core import source
from props import common

RUN = 'sqlparse.engine.filter_stack.FilterStack.run'
ENTRY = ['sqlparse.parse', 'sqlparse.parsestream', 'sqlparse.split', 'sqlparse.format']
# routines whose depth grows with the nesting of the input (recursive over the token tree)
RECURSIVE = {'flatten', '_group_matching', '_group', 'wrapped_f', 'process', '_process', '_process_default',
             '_stripws', '__str__', '_pprint_tree', 'get_sublists', 'group'}


def run_obligations(rep):
    node = source().get(RUN)
    if node is None:
        common.structural(rep, 'C15/%s/exists' % RUN, RUN, False, {}, undecided_if_false=True)
        return
    body = [s for s in node.body if not (isinstance(s, ast.Expr) and isinstance(s.value, ast.Constant))]
    is_try = len(body) == 1 and isinstance(body[0], ast.Try)
    common.structural(rep, 'C15/%s/the whole body is one try statement' % RUN, RUN, is_try,
                      {'statements': [type(s).__name__ for s in body]})
    if not is_try:
        # every call must at least be inside SOME try that handles RecursionError
        calls_out = []
        for st in body:
            if isinstance(st, ast.Try) and _handles_recursion(st):
                continue
            calls_out += [ast.unparse(c)[:60] for c in ast.walk(st) if isinstance(c, ast.Call)]
        common.structural(rep, 'C15/%s/no call outside a try that translates RecursionError' % RUN, RUN, not calls_out,
                          {'calls_outside': calls_out})
        return
    t = body[0]
    common.structural(rep, 'C15/%s/the try has a handler for RecursionError that raises SQLParseError' % RUN, RUN,
                      _handles_recursion(t), {'handlers': [ast.unparse(h.type) if h.type else 'bare' for h in t.handlers]})
    # every call of the pipeline (lexing, preprocess filters, splitter, grouping, statement filters, post filters) is
    # lexically inside the try body; nothing is deferred to code outside (finally / else / after)
    calls = [c for c in ast.walk(ast.Module(body=t.body, type_ignores=[])) if isinstance(c, ast.Call)]
    names = sorted({ast.unparse(c.func) for c in calls})
    need = {'lexer.tokenize': False, 'process': False, 'grouping.group': False}
    for n in names:
        for k in need:
            if n.endswith(k):
                need[k] = True
    for k, ok in need.items():
        common.structural(rep, 'C15/%s/call of %s is inside the try' % (RUN, k), RUN, ok, {'calls_in_try': names},
                          undecided_if_false=True)
    common.structural(rep, 'C15/%s/no else/finally clause runs pipeline code outside the handler' % RUN, RUN,
                      not t.orelse and not t.finalbody, {})
    # helper methods of FilterStack called from run must not contain their own deferred generators: run yields itself
    common.structural(rep, 'C15/%s/is a generator (statements are produced inside the try)' % RUN, RUN,
                      any(isinstance(n, (ast.Yield, ast.YieldFrom)) for n in ast.walk(ast.Module(body=t.body, type_ignores=[]))),
                      {})


def _handles_recursion(t):
    for h in t.handlers:
        ts = []
        if h.type is None:
            continue
        for e in (h.type.elts if isinstance(h.type, ast.Tuple) else [h.type]):
            ts.append(ast.unparse(e))
        if any(x.endswith('RecursionError') for x in ts):
            raises = [n for n in ast.walk(ast.Module(body=h.body, type_ignores=[])) if isinstance(n, ast.Raise)]
            if raises and all(r.exc is not None and 'SQLParseError' in ast.unparse(r.exc) for r in raises):
                return True
    return False


def entry_obligations(rep):
    """what the entry points do OUTSIDE the consumption of run() must not recurse over the token tree"""
    src = source()
    fns = effects.all_functions()
    for q in ENTRY:
        node = src.get(q)
        if node is None:
            common.structural(rep, 'C15/%s/exists' % q, q, False, {}, undecided_if_false=True)
            continue
        offenders = []
        for c in ast.walk(node):
            if not isinstance(c, ast.Call):
                continue
            f = c.func
            name = f.attr if isinstance(f, ast.Attribute) else (f.id if isinstance(f, ast.Name) else None)
            if name in ('run',):
                continue
            if name in RECURSIVE or name == 'str':
                offenders.append((name, c.lineno, ast.unparse(c)[:60]))
        if q == 'sqlparse.split':
            # the one hit: str(stmt) -> flatten().  Discharged by: split never enables grouping (statements are flat)
            strs = [o for o in offenders if o[0] == 'str']
            others = [o for o in offenders if o[0] != 'str']
            no_grouping = not any(isinstance(c, ast.Call) and isinstance(c.func, ast.Attribute)
                                  and c.func.attr in ('enable_grouping', 'build_filter_stack') for c in ast.walk(node))
            init = src.get('sqlparse.engine.filter_stack.FilterStack.__init__')
            grouping_false = init is not None and any(
                isinstance(n, ast.Assign) and ast.unparse(n.targets[0]) == 'self._grouping'
                and isinstance(n.value, ast.Constant) and n.value.value is False for n in ast.walk(init))
            runn = src.get(RUN)
            guarded = runn is not None and any(
                isinstance(n, ast.If) and 'self._grouping' in ast.unparse(n.test)
                and any(isinstance(c, ast.Call) and ast.unparse(c.func).endswith('grouping.group') for c in ast.walk(n))
                for n in ast.walk(runn))
            only_guarded = runn is not None and all(
                any(isinstance(i, ast.If) and 'self._grouping' in ast.unparse(i.test) and c in list(ast.walk(i))
                    for i in ast.walk(runn))
                for c in ast.walk(runn) if isinstance(c, ast.Call) and ast.unparse(c.func).endswith('grouping.group'))
            common.structural(rep, 'C15/%s/str(stmt) outside run() only sees flat statements (grouping is never enabled)' % q,
                              q, no_grouping and grouping_false and guarded and only_guarded and not others,
                              {'str_calls': strs, 'other_recursive_calls': others, 'no_enable_grouping': no_grouping,
                               'init_sets_grouping_false': grouping_false, 'group_only_if_grouping': guarded and only_guarded})
        else:
            common.structural(rep, 'C15/%s/no tree-recursive call outside the consumption of run()' % q, q,
                              not offenders, {'offenders': offenders})
    # helpers called by the entry points before run(): not recursive over the tree
    for q in ('sqlparse.formatter.validate_options', 'sqlparse.formatter.build_filter_stack',
              'sqlparse.engine.filter_stack.FilterStack.__init__',
              'sqlparse.engine.filter_stack.FilterStack.enable_grouping'):
        node = fns.get(q)
        if node is None:
            continue
        bad = [(k, n) for k, n, _l in effects.calls_of(node) if n in RECURSIVE and n != 'process']
        common.structural(rep, 'C15/%s/contains no tree-recursive call' % q, q, not bad, {'calls': bad})


def run(rep):
    run_obligations(rep)
    entry_obligations(rep)
    # "a later call still works": nothing global is written (frame obligations of C20)
    from props.C20 import frame_obligations
    n0 = len(rep.obls)
    frame_obligations(rep)
    for o in rep.obls[n0:]:
        o.id = 'C15/' + o.id.split('/', 1)[1]
    rep.functions += [RUN] + ENTRY
    common.run_bounded(rep, 'C15', rep.tier, rep.seed, budget_quick=40.0)
    rep.assumptions += ['CPython raises RecursionError instead of overflowing the C stack; a RecursionError raised while '
                        'entering a generator frame belongs to the caller\'s depth',
                        'the round-trip and tree guarantees of results are C02/C03 (proved for every input, '
                        'independent of depth)']
    rep.trusted += ['CPython recursion guard', 'pyvc.effects (syntactic analysis)']
    return common.finish(rep)


def replay(path):
    import json
    from pyvc import oracles
    d = json.load(open(path))
    case = d.get('case')
    if isinstance(case, list):
        case = tuple(tuple(x) if isinstance(x, list) else x for x in case)
    r = oracles.oracle_C15(case) if case is not None else None
    print('case', repr(case)[:300], '->', r)
    return 1 if r else 0
