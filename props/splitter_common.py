"""Shared by C05 and C17: grammar-induction obligations over the real StatementSplitter code."""
import multiprocessing as mp
import os

from pyvc import core, grammar
from props import common
from pyvc.core import Obl, DISCHARGED, FAILED, UNDECIDED, STALE

_PC = None


def _pc(prop):
    global _PC
    if _PC is None or _PC.prop != prop:
        import contracts.splitter as cs
        from pyvc.spec import REG
        cs.install_splitter_level_models(REG)
        _PC = grammar.ProductionChecker(REG, prop)
    return _PC


def _check(a):
    prop, lhs, rhs, fam, mode = a
    try:
        o = _pc(prop).check(lhs, rhs, fam, mode)
    except BaseException as e:
        import traceback
        o = Obl('%s/grammar[%s]/%s ::= %s' % (prop, fam, lhs, ' '.join(rhs)), grammar.PROCESS, status=UNDECIDED,
                detail={'reason': 'engine error %s: %s' % (type(e).__name__, e), 'tb': traceback.format_exc()[-500:]})
    o.finding_key = '%s:production:%s@%s' % (prop, lhs, fam)
    return o


def production_obligations(prop, select):
    """select(lhs, fam) -> bool chooses which (production, family) triples belong to this property"""
    pc = _pc(prop)
    jobs = []
    for lhs, rhs in pc.rules:
        for fam in sorted(pc.fam.get(lhs, [])):
            if select(lhs, fam):
                jobs.append((prop, lhs, rhs, fam, 'balanced'))
    for lhs, rhs in grammar.parse_rules(grammar.TOPLEVEL):
        if lhs in ('plain_terminated', 'proc_terminated', 'proc_declare') and select(lhs, 'RESET'):
            jobs.append((prop, lhs, rhs, 'RESET', 'terminated'))
    with mp.get_context('fork').Pool(min(16, os.cpu_count() or 4)) as pool:
        return pool.map(_check, jobs, chunksize=4)


def replay_production(ob, kind):
    """instantiate the failed production with minimal bodies and look for a script on which the real split() gives
    the wrong number of statements"""
    import sqlparse
    pc = _pc(ob.id.split('/')[0])
    try:
        head = ob.id.split('/grammar[')[1]
        fam, rest = head.split(']/', 1)
        lhs, rhs = rest.split(' ::= ')
        rhs = tuple(rhs.split()) if rhs != 'ε' else ()
    except Exception:
        return None
    rules = pc.rules + grammar.parse_rules(grammar.TOPLEVEL)
    inst, mins = grammar.minimal_script(lhs, rhs, rules)
    cands = []
    if fam in ('TOP', 'TOPP', 'RESET', 'PROC0', 'DECL'):
        cands += [(inst + ' ; select 2 ;', 2), ('select ( ' + inst + ' ; x ) from t ; select 2 ;', 2),
                  ('select 1 from t where y = ' + inst + ' and z in ( 1 ; 2 ) ; select 2 ;', 2),
                  ('select ' + inst + ' , ( 1 ; 2 ) from t ; select 2 ;', 2)]
    if fam in ('BODY', 'XB', 'PROC0', 'RESET', 'DECL'):
        for body in (inst, 'v := ' + inst, 'v := case when a = 1 then ' + inst + ' end',
                     'if a = 1 then v := ' + inst + ' ; end if'):
            cands += [('create function f ( ) begin ' + body + ' ; x := 1 ; end ; select 2 ;', 2),
                      ('create function f ( ) begin ' + body + ' ; if a = 1 then x := 1 ; end if ; y := 2 ; end ; '
                       'select 2 ;', 2)]
    if lhs in ('proc_terminated', 'proc_declare'):
        cands += [(inst + ' select 2 ;', 2)]
    for text, want in cands:
        try:
            got = sqlparse.split(text)
        except Exception as e:
            return {'input': text, 'observed': 'exception %r' % (e,), 'expected_statements': want, 'reproduced': True}
        if len(got) != want:
            return {'input': text, 'observed_pieces': got, 'expected_statements': want, 'reproduced': True}
    return {'candidates_tried': [c[0] for c in cands][:6], 'reproduced': False}


def lexical_independence(rep, prop):
    """The induction over the grammar treats every spelled terminal as one fixed token sequence.  That is sound only if no
    lexer rule can fuse a terminal W with the token that follows it in a derivation: for every rule of the default lexer
    table that spells keyword phrases (finite phrase set read off CPython's own parse tree of the rule) and every phrase
    'W X ...' whose first word W is a one-word terminal of the grammar, either the grammar knows the whole phrase as a
    terminal (END_IF, UNION_ALL, ...), or X cannot follow W in any sentential form (FOLLOW sets of the grammar)."""
    from pyvc import grammar, regexfacts
    from sqlparse import tokens as T
    follow, _first, _nullable = grammar.follow_sets()
    rules, _fam = grammar.build_grammar()
    terms = set()
    nts = {l for l, _ in rules} | {l for l, _ in grammar.parse_rules(grammar.TOPLEVEL)}
    for _l, r in list(rules) + grammar.parse_rules(grammar.TOPLEVEL):
        terms |= {s for s in r if s not in nts}
    spelled = {t for t in terms if t not in grammar.CLASSES}
    known_phrases = {t.replace('_', ' ') for t in spelled if '_' in t}
    cls_of = {}
    for cname, sample in grammar.CLASSES.items():
        tk = grammar.terminal_tokens(sample)
        if len(tk) == 1:
            cls_of.setdefault(tk[0][0], set()).add(cname)
    n_rules = 0
    for rx, action in common.default_lexer_rules():
        if rx is None:
            continue
        ph = regexfacts.phrases(rx)
        if not ph:
            continue
        multi = sorted(p for p in ph if ' ' in p)
        if not multi:
            continue
        n_rules += 1
        bad = []
        for p in multi:
            words = p.split(' ')
            w, x = words[0], words[1]
            if w not in spelled or p in known_phrases:
                continue
            fw = follow.get(w, set())
            # what X is when it stands alone
            tk = grammar.terminal_tokens(x)
            alone = tk[0][0] if len(tk) == 1 else None
            if x in fw or any(f.split('_')[0] == x for f in fw):
                bad.append('%s: %s can follow %s as a terminal' % (p, x, w))
            elif alone is not None and alone not in T.Keyword and alone not in T.Punctuation:
                classes = set()
                for tt, cs in cls_of.items():
                    if alone in tt or tt in alone:
                        classes |= cs
                if alone in T.Name:
                    classes |= {'NAME', 'TYPE'}
                if classes & fw:
                    bad.append('%s: %s (a %s token on its own) can follow %s as %s' % (p, x, alone, w, sorted(classes & fw)))
        common.structural(rep, '%s/lexer rule %r/fuses no grammar terminal with a token that may follow it' % (prop, rx),
                          'sqlparse.keywords.SQL_REGEX', not bad, {'rule': rx, 'conflicts': bad, 'phrases': multi[:12]})
    common.structural(rep, '%s/lexical independence/the phrase rules of the lexer table were inspected' % prop,
                      'sqlparse.keywords.SQL_REGEX', n_rules >= 1, {'rules': n_rules}, undecided_if_false=True)
