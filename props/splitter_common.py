"""Shared by C05 and C17: grammar-induction obligations over the real StatementSplitter code."""
import multiprocessing as mp
import os

from pyvc import core, grammar
from pyvc.core import Obl, DISCHARGED, FAILED, UNDECIDED, STALE

_PC = None


def _pc(prop):
    global _PC
    if _PC is None or _PC.prop != prop:
        import contracts.splitter as cs
        from pyvc.spec import REG
        cs.install_splitter_level_models(REG)
        _PC = grammar.ProductionChecker(REG, prop)
    return _PC


def _check(a):
    prop, lhs, rhs, fam, mode = a
    try:
        o = _pc(prop).check(lhs, rhs, fam, mode)
    except BaseException as e:
        import traceback
        o = Obl('%s/grammar[%s]/%s ::= %s' % (prop, fam, lhs, ' '.join(rhs)), grammar.PROCESS, status=UNDECIDED,
                detail={'reason': 'engine error %s: %s' % (type(e).__name__, e), 'tb': traceback.format_exc()[-500:]})
    o.finding_key = '%s:production:%s@%s' % (prop, lhs, fam)
    return o


def production_obligations(prop, select):
    """select(lhs, fam) -> bool chooses which (production, family) triples belong to this property"""
    pc = _pc(prop)
    jobs = []
    for lhs, rhs in pc.rules:
        for fam in sorted(pc.fam.get(lhs, [])):
            if select(lhs, fam):
                jobs.append((prop, lhs, rhs, fam, 'balanced'))
    for lhs, rhs in grammar.parse_rules(grammar.TOPLEVEL):
        if lhs in ('plain_terminated', 'proc_terminated', 'proc_declare') and select(lhs, 'RESET'):
            jobs.append((prop, lhs, rhs, 'RESET', 'terminated'))
    with mp.get_context('fork').Pool(min(16, os.cpu_count() or 4)) as pool:
        return pool.map(_check, jobs, chunksize=4)


def replay_production(ob, kind):
    """instantiate the failed production with minimal bodies and look for a script on which the real split() gives
    the wrong number of statements"""
    import sqlparse
    pc = _pc(ob.id.split('/')[0])
    try:
        head = ob.id.split('/grammar[')[1]
        fam, rest = head.split(']/', 1)
        lhs, rhs = rest.split(' ::= ')
        rhs = tuple(rhs.split()) if rhs != 'ε' else ()
    except Exception:
        return None
    rules = pc.rules + grammar.parse_rules(grammar.TOPLEVEL)
    inst, mins = grammar.minimal_script(lhs, rhs, rules)
    cands = []
    if fam in ('TOP', 'TOPP', 'RESET', 'PROC0', 'DECL'):
        cands += [(inst + ' ; select 2 ;', 2), ('select ( ' + inst + ' ; x ) from t ; select 2 ;', 2),
                  ('select 1 from t where y = ' + inst + ' and z in ( 1 ; 2 ) ; select 2 ;', 2),
                  ('select ' + inst + ' , ( 1 ; 2 ) from t ; select 2 ;', 2)]
    if fam in ('BODY', 'XB', 'PROC0', 'RESET', 'DECL'):
        for body in (inst, 'v := ' + inst, 'v := case when a = 1 then ' + inst + ' end',
                     'if a = 1 then v := ' + inst + ' ; end if'):
            cands += [('create function f ( ) begin ' + body + ' ; x := 1 ; end ; select 2 ;', 2),
                      ('create function f ( ) begin ' + body + ' ; if a = 1 then x := 1 ; end if ; y := 2 ; end ; '
                       'select 2 ;', 2)]
    if lhs in ('proc_terminated', 'proc_declare'):
        cands += [(inst + ' select 2 ;', 2)]
    for text, want in cands:
        try:
            got = sqlparse.split(text)
        except Exception as e:
            return {'input': text, 'observed': 'exception %r' % (e,), 'expected_statements': want, 'reproduced': True}
        if len(got) != want:
            return {'input': text, 'observed_pieces': got, 'expected_statements': want, 'reproduced': True}
    return {'candidates_tried': [c[0] for c in cands][:6], 'reproduced': False}
