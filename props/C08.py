"""C08 — targeted filters change exactly their target tokens and nothing else."""
from props import common, generic


FUNCS = [('sqlparse.filters.tokens._CaseFilter.process', 'KeywordCaseFilter'),
         ('sqlparse.filters.tokens.IdentifierCaseFilter.process', None),
         ('sqlparse.filters.tokens.TruncateStringFilter.process', None),
         ('sqlparse.formatter.validate_options', None),
         ('sqlparse.filters.others.StripCommentsFilter._process', 'sites'),
         ('sqlparse.filters.others.StripCommentsFilter._process', 'shape: A comment B ws hint ws comment'),
         ('sqlparse.filters.others.StripCommentsFilter.process', 'shape: comment group with a hint behind an ordinary comment'),
         ('sqlparse.filters.others.StripCommentsFilter._process.<locals>._get_insert_token', None)]


def filter_tables(rep):
    from sqlparse.filters import tokens as ft
    from sqlparse import tokens as T
    common.structural(rep, 'C08/KeywordCaseFilter.ttype/targets exactly the keyword types', 'sqlparse.filters.tokens.KeywordCaseFilter',
                      ft.KeywordCaseFilter.ttype is T.Keyword, {'ttype': repr(ft.KeywordCaseFilter.ttype)})
    common.structural(rep, 'C08/IdentifierCaseFilter.ttype/targets exactly (Name, String.Symbol) by equality',
                      'sqlparse.filters.tokens.IdentifierCaseFilter',
                      tuple(ft.IdentifierCaseFilter.ttype) == (T.Name, T.String.Symbol) and not isinstance(ft.IdentifierCaseFilter.ttype, T._TokenType),
                      {'ttype': repr(ft.IdentifierCaseFilter.ttype)})
    import ast
    from pyvc.core import source
    n = source().get('sqlparse.filters.tokens._CaseFilter.__init__')
    txt = ast.unparse(n) if n else ''
    common.structural(rep, 'C08/_CaseFilter.__init__/convert is the str method named by the (validated) option',
                      'sqlparse.filters.tokens._CaseFilter.__init__', 'self.convert = getattr(str, case)' in txt, {},
                      undecided_if_false=True)


def run(rep):
    return generic.run_generic(
        rep, FUNCS, structural=[filter_tables],
        assumptions=['str.upper / lower / capitalize are total and idempotent (uninterpreted `convert`)',
                     'a Name / String.Symbol token value is not blank (lexer fact)',
                     'StripCommentsFilter._process: per-site SMT obligations (every removed element is a comment that is not '
                     'a hint, every inserted one a fresh whitespace token) in the thorough tier; the closure _get_insert_token '
                     '(result: a whitespace leaf allocated by the call) in both tiers; in both tiers also the shape case  A '
                     '<comment> B ws <hint> ws <comment>  with the result the property demands: both comments are gone, the hint, '
                     'A, B and the original whitespace are the same objects in the same order, a whitespace token stands where a '
                     'comment separated two tokens; "no two tokens fused or '
                     'split / idempotent" (re-lexing): bounded stand-in only'],
        trusted=['CPython re engine', 'str case-mapping methods'],
        extra_functions=['sqlparse.filters.others.StripCommentsFilter._process'])


def replay(path):
    return generic.replay_generic('C08', path)
