"""C19 — all input forms and front ends give the same result."""
import ast

from pyvc import core
from pyvc.core import source
from props import common

GT = 'sqlparse.lexer.Lexer.get_tokens'


def _params(node):
    return [a.arg for a in node.args.args]


def _passes_unchanged(node, callee_suffix, argnames):
    """some call whose function text ends with callee_suffix receives exactly the parameters `argnames` (as plain
    names, positionally), and none of them is re-bound anywhere in the function"""
    rebound = {n.id for n in ast.walk(node) if isinstance(n, ast.Name) and isinstance(n.ctx, ast.Store)}
    for c in ast.walk(node):
        if isinstance(c, ast.Call) and ast.unparse(c.func).endswith(callee_suffix):
            got = [a.id if isinstance(a, ast.Name) else None for a in c.args]
            if got == list(argnames) and not c.keywords and not (set(argnames) & rebound):
                return True
    return False


def dataflow_obligations(rep):
    src = source()
    spec = [('sqlparse.parsestream', '.run', 2), ('sqlparse.parse', 'parsestream', 2), ('sqlparse.split', '.run', 2),
            ('sqlparse.format', '.run', 2), ('sqlparse.engine.filter_stack.FilterStack.run', 'tokenize', 2),
            ('sqlparse.lexer.tokenize', '.get_tokens', 2)]
    for q, callee, n in spec:
        node = src.get(q)
        if node is None:
            common.structural(rep, 'C19/%s/exists' % q, q, False, {}, undecided_if_false=True)
            continue
        ps = [p for p in _params(node) if p != 'self'][:n]
        ok = _passes_unchanged(node, callee, ps)
        common.structural(rep, 'C19/%s/passes (text, encoding) unchanged to %s' % (q, callee.lstrip('.')), q, ok,
                          {'params': ps}, undecided_if_false=True)
    node = src.get('sqlparse.parse')
    if node is not None:
        rets = [n for n in ast.walk(node) if isinstance(n, ast.Return)]
        ok = len(rets) == 1 and isinstance(rets[0].value, ast.Call) and ast.unparse(rets[0].value.func) == 'tuple' \
            and len(rets[0].value.args) == 1 and ast.unparse(rets[0].value.args[0]).startswith('parsestream(')
        common.structural(rep, 'C19/sqlparse.parse/is tuple(parsestream(...))', 'sqlparse.parse', ok, {},
                          undecided_if_false=True)
    # exactly one decode point: no other function of the pipeline decodes or reads its input
    offenders = []
    for q in ('sqlparse.parse', 'sqlparse.parsestream', 'sqlparse.split', 'sqlparse.format',
              'sqlparse.engine.filter_stack.FilterStack.run', 'sqlparse.lexer.tokenize',
              'sqlparse.engine.statement_splitter.StatementSplitter.process'):
        node = src.get(q)
        if node is None:
            continue
        for c in ast.walk(node):
            if isinstance(c, ast.Call) and isinstance(c.func, ast.Attribute) and c.func.attr in ('decode', 'encode', 'read'):
                offenders.append('%s:%d %s' % (q, c.lineno, ast.unparse(c)[:50]))
    common.structural(rep, 'C19/pipeline/bytes and streams are decoded/read at exactly one point (Lexer.get_tokens)',
                      GT, not offenders, {'offenders': offenders})


def cli_obligations(rep):
    q = 'sqlparse.cli.main'
    node = source().get(q)
    if node is None:
        common.structural(rep, 'C19/%s/exists' % q, q, False, {}, undecided_if_false=True)
        return
    calls = [c for c in ast.walk(node) if isinstance(c, ast.Call)]
    txt = {id(c): ast.unparse(c) for c in calls}
    fmt = [c for c in calls if txt[id(c)].startswith('sqlparse.format(')]
    val = [c for c in calls if 'validate_options(' in txt[id(c)]]
    wr = [c for c in calls if txt[id(c)].startswith('stream.write(')]
    ok_fmt = len(fmt) == 1 and len(fmt[0].args) == 1 and ast.unparse(fmt[0].args[0]) == 'data' \
        and len(fmt[0].keywords) == 1 and fmt[0].keywords[0].arg is None
    common.structural(rep, 'C19/%s/output = sqlparse.format(data, **validated options)' % q, q,
                      ok_fmt and len(val) == 1, {'format_calls': [txt[id(c)] for c in fmt]}, undecided_if_false=True)
    # the written value is the value returned by format, unchanged
    assigns = [n for n in ast.walk(node) if isinstance(n, ast.Assign) and isinstance(n.value, ast.Call)
               and n.value in fmt]
    var = ast.unparse(assigns[0].targets[0]) if assigns else None
    ok_wr = len(wr) == 1 and var is not None and [ast.unparse(a) for a in wr[0].args] == [var]
    common.structural(rep, 'C19/%s/the formatted text is written unchanged, once' % q, q, ok_wr,
                      {'write_calls': [txt[id(c)] for c in wr]}, undecided_if_false=True)
    # same encoding for reading and writing
    opens = [c for c in calls if txt[id(c)].startswith('open(') or txt[id(c)].startswith('TextIOWrapper(')]
    encs = [ast.unparse(k.value) for c in opens for k in c.keywords if k.arg == 'encoding']
    common.structural(rep, 'C19/%s/input and output use the same encoding argument' % q, q,
                      len(encs) >= 2 and len(set(encs)) == 1, {'encodings': encs}, undecided_if_false=True)
    # the input is read completely before the output file is opened (in-place formatting must not truncate the input)
    reads = [c.lineno for c in calls if isinstance(c.func, ast.Attribute) and c.func.attr in ('read', 'readlines')]
    wopen = [c.lineno for c in opens if any(isinstance(a, ast.Constant) and a.value == 'w' for a in c.args)]
    common.structural(rep, 'C19/%s/the input is read before the output file is opened for writing' % q, q,
                      bool(reads) and bool(wopen) and max(reads) < min(wopen), {'reads': reads, 'write_opens': wopen})


def cli_option_flow(rep):
    """every formatting flag the argument parser defines reaches format(): the expression that builds the options handed
    to validate_options (read from the real source of cli.main) is evaluated on the namespace the real parser produces,
    and must contain every destination of the parser's "Formatting Options" group with the parsed value"""
    from pyvc.core import import_repo
    import_repo()
    import sqlparse.cli as cli
    q = 'sqlparse.cli.main'
    node = source().get(q)
    if node is None:
        return
    val = [c for c in ast.walk(node) if isinstance(c, ast.Call) and 'validate_options' in ast.unparse(c.func)]
    argname = ast.unparse(val[0].args[0]) if val and val[0].args else None
    assigns = [n for n in ast.walk(node) if isinstance(n, ast.Assign) and len(n.targets) == 1
               and ast.unparse(n.targets[0]) == argname and 'validate_options' not in ast.unparse(n.value)]
    ok, detail = False, {}
    try:
        parser = cli.create_parser()
        groups = [g for g in parser._action_groups if 'format' in (g.title or '').lower()]
        dests = sorted({a.dest for g in groups for a in g._group_actions})
        ns = parser.parse_args(['input.sql'])
        expr = assigns[-1].value if assigns else None
        env = dict(vars(cli))
        env['args'] = ns
        built = eval(compile(ast.Expression(expr), '<cli.main>', 'eval'), env) if expr is not None else None
        missing = [d for d in dests if not (isinstance(built, dict) and d in built and built[d] == getattr(ns, d))]
        ok = bool(dests) and isinstance(built, dict) and not missing
        detail = {'formatting destinations': dests, 'missing from the options handed to validate_options': missing,
                  'expression': ast.unparse(expr) if expr is not None else None}
    except Exception as e:      # noqa  (the shape of main changed: not decidable this way)
        common.structural(rep, 'C19/%s/every formatting flag of the parser reaches validate_options and format' % q, q,
                          False, {'reason': '%s: %s' % (type(e).__name__, e)}, undecided_if_false=True)
        return
    common.structural(rep, 'C19/%s/every formatting flag of the parser reaches validate_options and format' % q, q, ok, detail)


def run(rep):
    common.verify_functions(rep, [(GT, 'text is str'), (GT, 'bytes with encoding'), (GT, 'bytes without encoding'),
                                  (GT, 'text stream'), (GT, 'other input')])
    dataflow_obligations(rep)
    cli_obligations(rep)
    cli_option_flow(rep)
    rep.functions += ['sqlparse.parse', 'sqlparse.parsestream', 'sqlparse.split', 'sqlparse.format', 'sqlparse.cli.main']
    common.run_bounded(rep, 'C19', rep.tier, rep.seed, budget_quick=40.0)
    rep.assumptions += ['bytes.decode(codec) is an uninterpreted partial function of (bytes, codec name); Latin-1 '
                        'decodes every byte string; distinct codec names are not assumed equal',
                        'argparse flag -> option mapping and text-layer newline translation: bounded stand-in only',
                        'a stream is read in one read() call that returns its whole remaining text']
    rep.trusted += ['CPython codecs, io and argparse']
    return common.finish(rep)


def replay(path):
    import json
    from pyvc import oracles
    d = json.load(open(path))
    case = d.get('case')
    if isinstance(case, list):
        case = tuple(case)
    r = oracles.oracle_C19(case) if case is not None else None
    print('case', repr(case)[:300], '->', r)
    return 1 if r else 0
