"""C04 — split() partitions the input and agrees with parse()."""
import ast

from pyvc.core import source
from props import common, generic, tree_common as tc
from props.C01 import GET_TOKENS, scanner_state_is_local
from props.C02 import splitter_obligations, ws_rules


def same_pipeline(rep):
    """split and parse run the same lexer + splitter pass: both build a fresh FilterStack and consume run(sql, encoding);
    split adds no filter unless strip_semicolon is set, and returns str(stmt).strip() of every statement in order"""
    src = source()
    n = src.get('sqlparse.split')
    txt = ast.unparse(n) if n else ''
    common.structural(rep, 'C04/sqlparse.split/returns [str(stmt).strip() for stmt in stack.run(sql, encoding)]',
                      'sqlparse.split', 'return [str(stmt).strip() for stmt in stack.run(sql, encoding)]' in txt,
                      {'text': txt[-160:]}, undecided_if_false=True)
    common.structural(rep, 'C04/sqlparse.split/builds a fresh FilterStack(strip_semicolon=...) and nothing else',
                      'sqlparse.split', 'stack = engine.FilterStack(strip_semicolon=strip_semicolon)' in txt
                      and 'enable_grouping' not in txt and '.append(' not in txt, {}, undecided_if_false=True)
    n = src.get('sqlparse.engine.filter_stack.FilterStack.__init__')
    txt = ast.unparse(n) if n else ''
    ok = 'self.preprocess = []' in txt and 'self.stmtprocess = []' in txt and 'self.postprocess = []' in txt \
        and 'self._grouping = False' in txt and txt.count('.append(') == 1 and 'if strip_semicolon:' in txt
    common.structural(rep, 'C04/FilterStack.__init__/empty filter lists, grouping off; a filter only with strip_semicolon',
                      'sqlparse.engine.filter_stack.FilterStack.__init__', ok, {}, undecided_if_false=True)
    n = src.get('sqlparse.engine.filter_stack.FilterStack.run')
    txt = ast.unparse(n) if n else ''
    ok = 'stream = StatementSplitter().process(stream)' in txt and txt.index('lexer.tokenize') < txt.index('StatementSplitter()')
    common.structural(rep, 'C04/FilterStack.run/one fresh StatementSplitter per run, fed by the lexer (after the token filters)',
                      'sqlparse.engine.filter_stack.FilterStack.run', ok, {}, undecided_if_false=True)


def whitespace_agreement(rep):
    """split() removes blanks with str.strip() while the splitter decides "nothing but whitespace left" by token type:
    the two notions must agree.  Exhaustive over the finite set of str.isspace characters, on the real lexer."""
    from pyvc.core import import_repo
    import_repo()
    from sqlparse import lexer, tokens as T
    chars = [chr(c) for c in range(0x110000) if chr(c).isspace()]
    bad = []
    for c in chars:
        toks = list(lexer.tokenize(c))
        if not (len(toks) == 1 and toks[0][0] in T.Whitespace and toks[0][1] == c):
            bad.append(c)
    o = common.structural(rep, 'C04/lexer/every str.isspace character lexes as one Whitespace token (exhaustive, %d characters)'
                          % len(chars), 'sqlparse.keywords.SQL_REGEX', not bad, {'not whitespace tokens': [repr(c) for c in bad]})
    if bad:
        from pyvc import oracles
        for text in ('select 1;' + bad[0], bad[0]):
            try:
                r = oracles.oracle_C04(text)
            except Exception:       # noqa
                r = None
            if r is not None:
                o.witness = {'input': text, 'failure': r, 'reproduced': True}
                break


def run(rep):
    return generic.run_generic(
        rep, [(GET_TOKENS, 'text is str'), (tc.GT, 'new group'), (tc.GT, 'extend flag')],
        structural=[splitter_obligations, same_pipeline, whitespace_agreement, tc.grouping_frame, tc.flatten_and_str,
                    # "agrees with parse()" and "splitting a piece again" compare separate runs over the same text: the
                    # lexer must not remember anything between (or during) runs
                    lambda r: scanner_state_is_local(r, 'C04'),
                    # ... and conversely: whatever the lexer types as whitespace (and the splitter may therefore drop at the
                    # end of the text) is whitespace for str.strip() too
                    lambda r: ws_rules(r, 'C04')],
        assumptions=['str.strip() removes exactly a maximal whitespace prefix and suffix',
                     're-splitting a returned piece gives that piece: bounded stand-in only (lexing a piece out of context '
                     'is regex semantics)',
                     'statements keep their text under grouping (C02 obligations, included here)'],
        trusted=['CPython re engine', 'str.strip'],
        extra_functions=['sqlparse.split', 'sqlparse.parse', 'sqlparse.engine.statement_splitter.StatementSplitter.process'])


def replay(path):
    return generic.replay_generic('C04', path)
