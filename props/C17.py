"""C17 — procedural bodies (CREATE ... BEGIN ... END;) stay one statement."""
from pyvc import core, grammar
from pyvc.core import Obl, DISCHARGED, FAILED, UNDECIDED
from props import common, splitter_common as sc
from props.C05 import PROC_NTS, CSL


def select(lhs, fam):
    if lhs in ('proc_terminated', 'proc_declare'):
        return True
    if lhs == 'plain_terminated':
        return False
    return fam in ('BODY', 'XB', 'PROC0', 'DECL') or lhs in PROC_NTS


def terminal_table_obligations(rep):
    """END IF / END LOOP / END WHILE are lexed as single keywords (real lexer, blank-delimited context)"""
    from sqlparse import tokens as T
    for sp in ('END IF', 'END LOOP', 'END WHILE', 'END   IF', 'end\tloop'):
        toks = grammar.terminal_tokens(sp)
        ok = len(toks) == 1 and toks[0][0] is T.Keyword
        common.structural(rep, 'C17/lexer terminal %r is one Keyword token' % sp, 'sqlparse.keywords.SQL_REGEX', ok,
                          {'tokens': [(repr(t), v) for t, v in toks]})


def run(rep):
    common.verify_functions(rep, [(CSL, 'total'), (CSL, 'state invariant')])
    for o in sc.production_obligations('C17', select):
        if o.status == FAILED:
            o.witness = sc.replay_production(o, 'proc')
        rep.add(o)
    terminal_table_obligations(rep)
    sc.lexical_independence(rep, 'C17')
    # the statements after the procedure start from the reset state (no flag or level survives the boundary)
    pc = sc._pc('C17')
    for k in ('trivia', 'other'):
        rep.add(grammar.check_after_terminator(pc, 'C17', k))
    rep.functions += [grammar.PROCESS, CSL, 'sqlparse.engine.statement_splitter.StatementSplitter._reset']
    common.run_bounded(rep, 'C17', rep.tier, rep.seed)
    rep.assumptions += [
        'structural induction over the procedural part of the verification grammar (DESIGN 3.5/4.5)',
        'terminal spellings are tokenised by the real lexer in a blank-delimited context (re semantics trusted)']
    rep.trusted += ['re (CPython) for tokenising terminal spellings', 'grammar of DESIGN 4.5 as the induction structure']
    return common.finish(rep)


def replay(path):
    from props.C05 import replay as r
    return r(path)
