"""C11 — parsing is insensitive to inter-token whitespace and keyword letter case."""
import ast

from pyvc import regexfacts
from pyvc.core import source
from props import common, generic, tree_common as tc

CSL = 'sqlparse.engine.statement_splitter.StatementSplitter._change_splitlevel'
FILES = ('sqlparse/sql.py', 'sqlparse/engine/grouping.py', 'sqlparse/engine/statement_splitter.py')


def regex_separators(rep):
    """in every rule that spells several words the separator between the words is \\s+ (any non-empty whitespace)"""
    from sqlparse import keywords
    table = list(keywords.SQL_REGEX)
    known = {rx for rx, _ in table}
    # rules that only exist in the table of the default lexer instance (added by the configuration code) count as well
    extra = [(rx, a) for rx, a in common.default_lexer_rules() if rx not in known]
    common.structural(rep, 'C11/Lexer.default_initialization/every rule of the default instance is a compiled pattern '
                      '(so its separators can be read)', 'sqlparse.lexer.Lexer.default_initialization',
                      all(rx is not None for rx, _ in extra), {'extra_rules': len(extra)}, undecided_if_false=True)
    for i, (rx, a) in enumerate(table + [(rx, a) for rx, a in extra if rx is not None]):
        seps = regexfacts.word_separators(rx)
        if not seps or not regexfacts.has_letters(rx):
            continue
        bad = [x for x in seps if x != 'ws+']
        # GO(\s\d+) is not a multi-word keyword (GO + repeat count); the TZCast rule is checked like the others
        if rx.startswith('GO('):
            continue
        where = 'keywords.SQL_REGEX[%d]' % i if i < len(table) else 'default lexer rule %r' % rx
        common.structural(rep, 'C11/%s/words of a multi-word rule are separated by \\s+' % where,
                          'sqlparse.keywords.SQL_REGEX', not bad, {'rule': rx, 'separators': seps})


def inspection_sites(rep):
    """every place where the parser compares token TEXT with a constant word does so case-insensitively and through
    the whitespace-collapsed form: comparisons of `.value` with a constant that contains a letter must go through
    .upper()/.normalized (AST scan of sql.py, grouping.py, statement_splitter.py)"""
    src = source()
    offenders = []
    for rel in FILES:
        tree = src.module_tree(rel)
        if tree is None:
            continue
        for n in ast.walk(tree):
            if isinstance(n, ast.Compare):
                parts = [n.left] + list(n.comparators)
                consts = [p for p in parts if isinstance(p, ast.Constant) and isinstance(p.value, str)
                          and any(c.isalpha() for c in p.value)]
                others = [ast.unparse(p) for p in parts if not isinstance(p, ast.Constant)]
                if consts and any('.value' in o and '.upper()' not in o and 'normalized' not in o for o in others):
                    offenders.append('%s:%d %s' % (rel, n.lineno, ast.unparse(n)[:70]))
    # ... the same for membership tests of the raw value in a NAMED collection of words (token.value in KW_CONSTANTS): the
    # name is resolved in the real module
    import importlib
    for rel in FILES:
        tree = src.module_tree(rel)
        if tree is None:
            continue
        try:
            mod = importlib.import_module(rel[:-3].replace('/', '.'))
        except Exception:       # noqa
            mod = None
        for n in ast.walk(tree):
            if not (isinstance(n, ast.Compare) and len(n.ops) == 1 and isinstance(n.ops[0], (ast.In, ast.NotIn))):
                continue
            left, right = ast.unparse(n.left), n.comparators[0]
            if '.value' not in left or '.upper()' in left or 'normalized' in left:
                continue
            coll = None
            if isinstance(right, ast.Name) and mod is not None:
                coll = getattr(mod, right.id, None)
            elif isinstance(right, ast.Attribute):
                try:
                    coll = eval(compile(ast.Expression(right), '<c11>', 'eval'), vars(mod) if mod else {})
                except Exception:   # noqa
                    coll = None
            if isinstance(coll, (set, frozenset, tuple, list, dict)) and any(
                    isinstance(w, str) and any(ch.isalpha() for ch in w) for w in coll):
                offenders.append('%s:%d %s' % (rel, n.lineno, ast.unparse(n)[:70]))
    common.structural(rep, 'C11/parser/no case- or spacing-sensitive comparison of token text with a keyword constant',
                      'sqlparse', not offenders, {'offenders': offenders})
    # constants used for keyword matching are spelled upper-case with single blanks (they are compared with
    # Token.normalized, which is upper-cased and whitespace-collapsed: Token.__init__ contract)
    from sqlparse import sql
    bad = []
    for name in dir(sql):
        k = getattr(sql, name)
        for attr in ('M_OPEN', 'M_CLOSE', 'M_EXTEND'):
            m = getattr(k, attr, None) if isinstance(k, type) else None
            if m is None:
                continue
            pats = m if isinstance(m, list) else [m]
            for p in pats:
                vals = p[1]
                for v in ([vals] if isinstance(vals, str) else (vals or ())):
                    if v != ' '.join(v.upper().split()):
                        bad.append('%s.%s %r' % (name, attr, v))
    common.structural(rep, 'C11/sqlparse.sql/M_OPEN, M_CLOSE, M_EXTEND constants are upper-case with single blanks',
                      'sqlparse.sql', not bad, {'bad': bad})
    # line breaks are not distinguished from blanks by the grouping passes
    uses = []
    tree = src.module_tree('sqlparse/engine/grouping.py')
    for n in ast.walk(tree) if tree else ():
        if isinstance(n, ast.Attribute) and n.attr in ('is_newline', 'Newline'):
            uses.append('grouping.py:%d %s' % (n.lineno, ast.unparse(n)))
    o = common.structural(rep, 'C11/sqlparse.engine.grouping/no pass distinguishes a line break from a blank',
                          'sqlparse.engine.grouping', not uses, {'uses': uses},
                          finding_key='C11:bounded:line-break-vs-blank-between-two-comments')
    if uses:
        o.witness = {'input': "'/* a */ /* b */ select 1' vs '/* a */\\n/* b */ select 1'", 'reproduced': True}


SPELL_WORDS = ['END IF', 'END LOOP', 'END WHILE', 'END FOR', 'END CASE', 'BEGIN', 'DECLARE', 'CASE', 'END', 'CREATE', 'LOOP', 'DO',
               'IF', 'FOR', 'WHILE', 'CREATE OR REPLACE', 'SELECT']


def _native_transition(state, ttype, value):
    from sqlparse.engine.statement_splitter import StatementSplitter
    sp = StatementSplitter()
    for k, v in state.items():
        if hasattr(sp, k):
            setattr(sp, k, list(v) if isinstance(v, list) else v)
    try:
        r = sp._change_splitlevel(ttype, value)
    except Exception as e:      # noqa
        r = 'raised %s' % type(e).__name__
    return (r,) + tuple(getattr(sp, k, None) for k in ('_in_declare', '_case_levels', '_is_create', '_begin_depth', 'level'))


def replay_spelling(rep):
    """a failed two-run obligation of _change_splitlevel[keyword spelling] is replayed natively: two spellings of one
    keyword (other letter case / other inner whitespace) from the same splitter state"""
    from pyvc.core import import_repo, FAILED
    import_repo()
    from sqlparse import tokens as T
    states = [{}, {'_is_create': True}, {'_is_create': True, '_begin_depth': 1}, {'_is_create': True, '_in_declare': True},
              {'_is_create': True, '_begin_depth': 1, '_case_levels': [1], 'level': 2}]
    for ob in rep.obls:
        if ob.status != FAILED or '[keyword spelling]' not in ob.id:
            continue
        found = None
        for w in SPELL_WORDS:
            for alt in (w.lower(), w.capitalize(), w.replace(' ', '  '), w.replace(' ', '\n'), w.replace(' ', '\t ')):
                if alt == w:
                    continue
                for st in states:
                    for tt in (T.Keyword, T.Keyword.DDL, T.Keyword.DML):
                        a, b = _native_transition(st, tt, w), _native_transition(st, tt, alt)
                        if a != b:
                            found = {'input': ('spelling', w, alt, sorted(st.items()), str(tt)), 'failure':
                                     '_change_splitlevel(%s, %r) -> %r but with %r -> %r (result, _in_declare, _case_levels, '
                                     '_is_create, _begin_depth, level) from state %r' % (tt, w, a, alt, b, st),
                                     'reproduced': True}
                            break
                    if found:
                        break
                if found:
                    break
            if found:
                break
        if found:
            ob.witness = found


def run(rep):
    return generic.run_generic(
        rep, [('sqlparse.sql.Token.__init__', 'body'), (CSL, 'opaque token'), (CSL, 'keyword spelling')] + tc.NAV_FUNCS[:4] + tc.JOINER_FUNCS[:1],
        structural=[replay_spelling, regex_separators, inspection_sites],
        assumptions=['alpha(value) = upper-cased value with inner whitespace collapsed (str.upper / str.split / str.join '
                     'uninterpreted, composed as in the code)',
                     'the splitter transition is proved spelling-independent by a two-run contract (same state, two strings with '
                     'the same alpha(), same result and same state afterwards)',
                     'the end-to-end statement (same tree shape for respelled scripts) is the bounded stand-in; the proved '
                     'part is per inspection site'],
        trusted=['CPython re engine', 'str.upper, str.split'])


def replay(path):
    import json
    d = json.load(open(path))
    inp = (d.get('witness') or {}).get('input')
    if isinstance(inp, list) and inp and inp[0] == 'spelling':
        from pyvc.core import import_repo
        import_repo()
        from sqlparse import tokens as T
        tt = T.Keyword
        for part in inp[4].split('.')[1:]:
            tt = getattr(tt, part) if part != 'Keyword' else tt
        st = {k: v for k, v in inp[3]}
        a, b = _native_transition(st, tt, inp[1]), _native_transition(st, tt, inp[2])
        print('%r -> %r ; %r -> %r' % (inp[1], a, inp[2], b))
        return 1 if a != b else 0
    return generic.replay_generic('C11', path)
