"""Generic assembly of a property check: SMT obligations of the listed functions (sidecar contracts), structural
obligations, bounded stand-in, counter-model replay."""
import json

from pyvc import core
from props import common


def run_generic(rep, functions, structural=(), assumptions=(), trusted=(), bounded=True, budget_quick=25.0,
                extra_functions=()):
    if functions:
        common.verify_functions(rep, list(functions))
    for fn in structural:
        fn(rep)
    rep.functions += list(extra_functions)
    if bounded:
        common.run_bounded(rep, rep.prop, rep.tier, rep.seed, budget_quick=budget_quick)
    rep.assumptions += list(assumptions)
    rep.trusted += list(trusted)
    return common.finish(rep)


def replay_generic(prop, path):
    from pyvc import oracles
    d = json.load(open(path))
    case = d.get('case')
    if case is None:
        case = (d.get('witness') or {}).get('input')

    def tup(x):
        return tuple(tup(y) for y in x) if isinstance(x, list) else x
    case = tup(case)
    orc = getattr(oracles, 'oracle_' + prop, None)
    r = orc(case) if (orc and case is not None) else None
    print('obligation:', d.get('obligation', d.get('id')))
    print('case', repr(case)[:400], '->', r)
    return 1 if r else 0
