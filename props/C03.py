"""C03 — grouping is purely structural and yields a well-formed token tree."""
from props import common, generic, tree_common as tc


def run(rep):
    return generic.run_generic(
        rep, tc.TREE_FUNCS + tc.NAV_FUNCS + tc.OFFSET_FUNCS + tc.MATCHER_FUNCS + tc.PASS_FUNCS + tc.JOINER_FUNCS,
        structural=[tc.grouping_frame, tc.flatten_and_str, tc.identity_side_conditions],
        assumptions=['Inv (I1-I6, DESIGN 4.2) as a local invariant with ownership = the tree (methodology, DESIGN 3.3)',
                     '_group_matching (6 classes) and the nine simple passes are under contract: at every group_tokens call '
                     '0 <= start <= end < len (so the proved group_tokens contract applies) and no exception escapes; the '
                     'joining driver _group (11 instantiations) is covered by the bounded stand-in only',
                     'get_token_at_offset / within / has_ancestor / is_child_of: bounded stand-in only'],
        trusted=['ownership-based local invariants (methodology)'],
        extra_functions=['sqlparse.engine.grouping.*'])


def replay(path):
    return generic.replay_generic('C03', path)
