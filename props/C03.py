"""C03 — grouping is purely structural and yields a well-formed token tree."""
from props import common, generic, tree_common as tc


def run(rep):
    common.load_contracts()
    from contracts.sql import ANCESTRY_CASES
    return generic.run_generic(
        rep, tc.TREE_FUNCS + tc.NAV_FUNCS + tc.OFFSET_FUNCS + list(ANCESTRY_CASES) + tc.MATCHER_FUNCS + tc.PASS_FUNCS + tc.JOINER_FUNCS,
        structural=[tc.grouping_frame, tc.flatten_and_str, tc.identity_side_conditions],
        assumptions=['Inv (I1-I6, DESIGN 4.2) as a local invariant with ownership = the tree (methodology, DESIGN 3.3)',
                     '_group_matching (6 classes), the nine simple passes and the joining driver _group with its ten passes '
                     'are under contract: at every group_tokens call 0 <= start <= end < len (so the proved group_tokens '
                     'contract applies) and no exception escapes',
                     'within / has_ancestor / is_child_of are verified against the ancestry chain of a token (abstract '
                     'sequence ANC of group nodes, nearest first, linked by the parent references that I1 establishes): '
                     'within(cls) <=> some ancestor is an instance of cls; has_ancestor(o) <=> o is an ancestor (cases: the '
                     'parent, a farther ancestor, not an ancestor, no parent); is_child_of(o) <=> o is the parent; the walk '
                     'terminates because the chain is finite (termination itself is not proved)',
                     'get_token_at_offset: verified against the leaf sequence model of flatten()'],
        trusted=['ownership-based local invariants (methodology)'],
        extra_functions=['sqlparse.engine.grouping.*'])


def replay(path):
    return generic.replay_generic('C03', path)
