"""C01 — the lexer is total and lossless: tokens partition the input text."""
import re

from pyvc import core, regexfacts
from pyvc.core import Obl, DISCHARGED, FAILED, UNDECIDED
from props import common

GET_TOKENS = 'sqlparse.lexer.Lexer.get_tokens'


def table_obligations(rep, prop='C01'):
    """data obligations over the real rule table (and over the compiled table of a freshly initialised Lexer)"""
    from sqlparse import keywords, tokens as T, lexer
    table = keywords.SQL_REGEX
    common.structural(rep, '%s/keywords.SQL_REGEX/is a list of (pattern, action) pairs' % prop,
                      'sqlparse.keywords.SQL_REGEX',
                      isinstance(table, list) and all(isinstance(x, tuple) and len(x) == 2 and isinstance(x[0], str)
                                                      for x in table), {'rules': len(table)})
    for i, (rx, action) in enumerate(table):
        try:
            re.compile(rx, regexfacts.FLAGS)
            mw = regexfacts.minwidth(rx)
            gw = regexfacts.sre_getwidth(rx)[0]
            err = None
        except Exception as e:   # an uncompilable rule breaks tokenize() for every input
            mw, gw, err = -1, -1, repr(e)
        common.structural(rep, '%s/keywords.SQL_REGEX[%d]/compiles and has minimum match width >= 1' % (prop, i),
                          'sqlparse.keywords.SQL_REGEX', err is None and mw >= 1 and mw <= gw,
                          {'rule': rx, 'minwidth': mw, 'sre_getwidth_min': gw, 'error': err})
        ok = isinstance(action, T._TokenType) or action is keywords.PROCESS_AS_KEYWORD
        common.structural(rep, '%s/keywords.SQL_REGEX[%d]/action is a token type or PROCESS_AS_KEYWORD' % (prop, i),
                          'sqlparse.keywords.SQL_REGEX', ok and action is not T.Error, {'rule': rx, 'action': repr(action)})
    # the table the default instance actually scans with is the compiled form of SQL_REGEX, in order
    lx = lexer.Lexer()
    lx.default_initialization()
    comp = lx._SQL_REGEX
    same = len(comp) == len(table) and all(
        getattr(m, '__self__', None) is not None and m.__name__ == 'match' and m.__self__.pattern == rx
        and m.__self__.flags & (re.I | re.U) == (re.I | re.U) and a is act
        for (m, a), (rx, act) in zip(comp, table))
    common.structural(rep, '%s/Lexer.default_initialization/compiled table = SQL_REGEX compiled with I|U, bound to match' % prop,
                      'sqlparse.lexer.Lexer.set_SQL_REGEX', same, {'entries': len(comp)})


def candidates(ob):
    """counter-model text first, then small variations over the witness alphabet of the sidecar contract"""
    import itertools
    from contracts.lexer import get_tokens_str
    t = common.model_value(ob, 'in_text')
    alpha = list(get_tokens_str.witness_alphabet)
    if isinstance(t, str):
        yield t
        for a in alpha:
            yield t + a
            yield a + t
        alpha = sorted(set(t)) + alpha
    for n in (1, 2, 3):
        for tup in itertools.product(alpha, repeat=n):
            yield ''.join(tup)


def scanner_state_is_local(rep, prop='C01'):
    """C01 holds for every stream, also when several token streams of the (shared) lexer are consumed interleaved: the
    scanner keeps its text and position in the generator's own frame - get_tokens and the methods it calls on the lexer
    store nothing on the lexer object (frame obligation over the real AST)"""
    from pyvc import effects
    fns = effects.all_functions()
    config_api = ('__init__', 'clear', 'default_initialization', 'set_SQL_REGEX', 'add_keywords', 'get_default_instance')
    # the scanning path: get_tokens, is_keyword and every Lexer method they (transitively) call; helpers that only the
    # configuration API calls are configuration code (their effect on later calls is C20's subject)
    graph = effects.call_graph()
    lexer_graph = {q: {t for t in tg if t.startswith('sqlparse.lexer.Lexer.')} for q, tg in graph.items()
                   if q.startswith('sqlparse.lexer.Lexer.')}
    scanning = effects.reachable(lexer_graph, ['sqlparse.lexer.Lexer.get_tokens', 'sqlparse.lexer.Lexer.is_keyword'])
    for q, node in sorted(fns.items()):
        if not (q.startswith('sqlparse.lexer.Lexer.') and '<locals>' not in q):
            continue
        name = q.rsplit('.', 1)[1]
        if name in config_api or q not in scanning:
            continue
        ws = [w.as_dict() for w in effects.writes_of(q, node) if w.base in ('self', 'cls')]
        common.structural(rep, '%s/%s/keeps no scanning state on the lexer object (interleaved streams are independent)' % (prop, q),
                          q, not ws, {'writes': ws})


def run(rep):
    common.verify_functions(rep, [(GET_TOKENS, 'text is str'), ('sqlparse.utils.consume', None),
                                  ('sqlparse.lexer.Lexer.is_keyword', 'full')])
    table_obligations(rep)
    scanner_state_is_local(rep)
    # "tokenizing never fails" includes the process's first calls made from several threads: every caller gets a completely
    # initialised lexer (monitor obligations over get_default_instance, shared with C20)
    from props.C20 import lock_obligations
    lock_obligations(rep, 'C01')
    common.run_bounded(rep, 'C01', rep.tier, rep.seed)
    common.attach_replay(rep, 'C01', candidates)
    rep.assumptions += ['re.Pattern.match(text, pos) returns None or a match m with pos <= m.end() <= len(text), '
                        'm.group() == text[pos:m.end()], m.end()-pos >= minwidth(pattern); it raises nothing',
                        'itertools.islice / collections.deque(maxlen=0) advance the iterator by min(n, remaining)']
    rep.trusted += ['CPython re engine', 'itertools.islice, collections.deque, enumerate']
    return common.finish(rep)


def replay(path):
    import json
    from pyvc import oracles
    d = json.load(open(path))
    case = d.get('case') or (d.get('witness') or {}).get('input')
    r = oracles.oracle_C01(case) if case is not None else None
    print('case', repr(case), '->', r)
    return 1 if r else 0
