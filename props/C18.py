"""C18 — Statement.get_type() names the statement's leading DML/DDL keyword."""
from props import common, generic, tree_common as tc


def typing_tables(rep):
    """data: every DML / DDL / CTE word of the dictionaries carries that type; the dedicated CREATE rule is DDL"""
    from sqlparse import keywords, tokens as T
    want = {'SELECT': T.Keyword.DML, 'INSERT': T.Keyword.DML, 'UPDATE': T.Keyword.DML, 'DELETE': T.Keyword.DML,
            'MERGE': T.Keyword.DML, 'REPLACE': T.Keyword.DML, 'UPSERT': T.Keyword.DML,
            'DROP': T.Keyword.DDL, 'CREATE': T.Keyword.DDL, 'ALTER': T.Keyword.DDL, 'WITH': T.Keyword.CTE}
    from sqlparse import lexer
    lx = lexer.Lexer()
    lx.default_initialization()
    for w, t in want.items():
        got = lx.is_keyword(w)[0]
        common.structural(rep, 'C18/keywords/%s is typed %s by the dictionaries' % (w, t), 'sqlparse.keywords', got is t,
                          {'got': repr(got)})
    # no dictionary shadows a DML / DDL / CTE typing: whatever word ANY dictionary of the default configuration types as
    # DML, DDL or CTE gets exactly that type from the first-wins lookup (otherwise the entry is dead and statements that
    # start with the word are reported as UNKNOWN)
    shadowed = []
    for d in lx._keywords:
        for w, t in d.items():
            if t in (T.Keyword.DML, T.Keyword.DDL, T.Keyword.CTE) and lx.is_keyword(w)[0] is not t:
                shadowed.append('%s: %r in a later dictionary, %r effective' % (w, t, lx.is_keyword(w)[0]))
    o = common.structural(rep, 'C18/keywords/no DML, DDL or CTE entry of a dictionary is shadowed by an earlier dictionary',
                          'sqlparse.keywords', not shadowed, {'shadowed': shadowed})
    if shadowed:
        import sqlparse
        w = shadowed[0].split(':')[0]
        o.witness = {'input': w + ' x;', 'failure': 'get_type() of %r is %r although a dictionary types %s as a statement keyword'
                     % (w + ' x;', sqlparse.parse(w + ' x;')[0].get_type(), w), 'reproduced': sqlparse.parse(w + ' x;')[0].get_type() != w}
    rule = [(rx, a) for rx, a in keywords.SQL_REGEX if rx.startswith('CREATE')]
    common.structural(rep, 'C18/keywords.SQL_REGEX/dedicated CREATE [OR REPLACE] rule is typed Keyword.DDL',
                      'sqlparse.keywords.SQL_REGEX', len(rule) == 1 and rule[0][1] is T.Keyword.DDL and '\\s+OR\\s+REPLACE' in rule[0][0],
                      {'rule': rule[0][0] if rule else None})
    idx_create = next((i for i, (rx, a) in enumerate(keywords.SQL_REGEX) if rx.startswith('CREATE')), None)
    idx_word = next((i for i, (rx, a) in enumerate(keywords.SQL_REGEX) if a is keywords.PROCESS_AS_KEYWORD), None)
    common.structural(rep, 'C18/keywords.SQL_REGEX/the CREATE rule precedes the generic word rule',
                      'sqlparse.keywords.SQL_REGEX', idx_create is not None and idx_word is not None and idx_create < idx_word, {})


def run(rep):
    common.load_contracts()
    from contracts.sql import GET_TYPE_SHAPE_CASES
    return generic.run_generic(
        rep, [('sqlparse.sql.Statement.get_type', None), ('sqlparse.sql.Token.__init__', 'body'),
              ('sqlparse.engine.grouping.align_comments', 'shape: WITH cte <comment> SELECT')] + list(GET_TYPE_SHAPE_CASES)
        + tc.NAV_FUNCS[:4],
        structural=[typing_tables, tc.identity_side_conditions],
        assumptions=['the first word of a statement is lexed as the keyword token the tables give: bounded stand-in '
                     '(every DML/DDL keyword x casing x leading trivia x continuations)',
                     'for WITH statements the proved clause is: if the first Identifier / IdentifierList child behind WITH is '
                     'directly followed by a DML keyword, the result is that keyword; other shapes (e.g. several separate '
                     'definition nodes) are covered by the bounded stand-in',
                     'a comment between the CTE definitions and the main keyword is folded into the definitions\' group by '
                     'align_comments whatever whitespace separates them (shape case WITH cte <newline> comment <newline> SELECT), '
                     'so that the walk of get_type() - which skips whitespace only - reaches the DML keyword'],
        trusted=['CPython re engine (lexing of the first word)'])


def replay(path):
    return generic.replay_generic('C18', path)
