"""Region rules of the lexer as regular languages (C14, C05): obligations over the REAL keywords.SQL_REGEX, decided by z3's
theory of regular expressions over strings (pyvc/regexlang.py), every counter-model replayed on the real lexer.

For each region kind of the property - single-quoted string, double-quoted and backtick-quoted name, /* */ comment, --
comment - the SPEC language S of its well-formed texts is written here from the property's wording; the rules considered are
those of the region's token type that can begin with its opening character, in table order, up to and including the first
one whose language already contains S (a later rule is never reached for a well-formed region).

 O1  S is contained in the union of the rules' languages                      (every well-formed region is matched in full)
 O2  per rule with lazy quantifiers only: no PROPER PREFIX of a text of S is in the rule's language
                                                                             (it cannot stop before the region's end)
 O3  per rule with greedy quantifiers only: no text of S followed by a non-empty text - not beginning with the closing
     character, for the quoted kinds - is in the rule's language                 (it cannot run past the region's end)

A rule outside the translated subset (look-around, back reference) makes the obligations that need it UNDECIDED.  A counter-
model that the real lexer does not reproduce (the language says a text CAN be matched, not which match backtracking picks)
is UNDECIDED as well, never a violation.  Dollar-quoted bodies need a back reference: bounded family only."""
import time

import z3

from pyvc import regexfacts, regexlang as RL
from pyvc.core import Obl, DISCHARGED, FAILED, UNDECIDED

FN = 'sqlparse.keywords.SQL_REGEX'


def _quoted(q, backslash=False):
    """q body q, the body made of characters other than q and of doubled q; a backslash in the body only on request: the
    rules read a backslash in front of a quote as an escape when that lets them go on, so a body with a backslash is ONE
    token only as long as no further quote follows - which holds in the contexts of O1 (the region alone or next to one
    delimiter character), not in those of O3"""
    return z3.Concat(RL.lit(q), z3.Star(z3.Union(RL.not_chars(q if backslash else q + '\\'), RL.lit(q + q))), RL.lit(q))


def specs(T):
    """kind -> (opening character, token type, match by identity?, S, closing character or None, S for O2 or None, S for O1 or None)
    (O2 for the -- comment is stated for the line end \\n only: with \\r\\n the rule's language also contains the text up to
    the \\r - its alternation lists \\r\\n first, a matter of priority that the language does not see; bounded family)"""
    anyc = RL.all_strings()
    x_ok = z3.Intersect(z3.Concat(anyc, RL.lit('*/')), z3.Complement(z3.Concat(anyc, RL.lit('*/'), z3.Plus(RL.any_char()))))
    return {
        'single-quoted string': ("'", T.String.Single, False, _quoted("'"), "'", None, _quoted("'", True)),
        'double-quoted name': ('"', T.String.Symbol, False, _quoted('"'), '"', None, _quoted('"', True)),
        'backtick-quoted name': ('`', T.Name, True, _quoted('`'), '`', None, None),
        '/* */ comment': ('/', T.Comment.Multiline, False, z3.Concat(RL.lit('/*'), x_ok), None, None, None),
        '-- comment up to its line end': ('-', T.Comment.Single, False,
                                          z3.Concat(RL.lit('--'), z3.Star(RL.not_chars('\r\n')), z3.Union(RL.lit('\n'), RL.lit('\r\n'))),
                                          None, z3.Concat(RL.lit('--'), z3.Star(RL.not_chars('\r\n')), RL.lit('\n')), None),
    }


def _lex(text):
    from sqlparse import lexer
    return list(lexer.tokenize(text))


def _sval(m, v):
    r = m.eval(v, model_completion=True)
    try:
        return r.as_string().encode('latin-1', 'backslashreplace').decode('unicode_escape') if '\\u' in r.as_string() else r.as_string()
    except Exception:     # noqa: BLE001
        return str(r)


def _z3str(m, v):
    """python str of a z3 string value (z3 prints non-ASCII as \\u{..})"""
    import re as _re
    raw = m.eval(v, model_completion=True).as_string()
    return _re.sub(r'\\u\{([0-9a-fA-F]+)\}', lambda k: chr(int(k.group(1), 16)), raw)


def _rule_application(prop):
    """the side condition under which a statement about a rule's language is a statement about the lexer: the scanning loop
    applies each compiled rule as  <match>(text, pos)  - at the current position, to the whole remaining text (no end
    position, no slice)"""
    import ast
    from pyvc.core import source
    calls, matcher = [], None
    src = source()
    for q in ('sqlparse.lexer.Lexer.get_tokens', 'sqlparse.lexer.Lexer._scan'):
        node = src.get(q)
        if node is None:
            continue
        for n in ast.walk(node):
            if isinstance(n, ast.For) and '_SQL_REGEX' in ast.unparse(n.iter) and isinstance(n.target, ast.Tuple) \
                    and isinstance(n.target.elts[0], ast.Name):
                matcher = n.target.elts[0].id
                for c in ast.walk(n):
                    if isinstance(c, ast.Call) and isinstance(c.func, ast.Name) and c.func.id == matcher:
                        calls.append(c)
    ok = bool(calls) and all(len(c.args) == 2 and not c.keywords and all(isinstance(a, ast.Name) for a in c.args) for c in calls)
    return Obl('%s/sqlparse.lexer.Lexer.get_tokens/every rule is applied at the current position to the whole remaining text '
               '(side condition of the region-language obligations)' % prop, 'sqlparse.lexer.Lexer.get_tokens', kind='structural',
               backend='structural', status=DISCHARGED if ok else UNDECIDED,
               detail={'matcher': matcher, 'calls': [ast.unparse(c) for c in calls]})


def keyword_rule_boundaries(prop):
    """C14 "a word in no dictionary is a Name", C11: a rule that produces a keyword token from a fixed phrase (GROUP BY, END IF,
    NOT NULL, ...) must not match the beginning of a longer word: every alternative of the rule ends in a word boundary.
    The rule is split into its contexted branches; a branch whose texts end in a word character and that has no condition
    on the character behind it is replayed on the real lexer (a text of the branch followed by a letter)"""
    from sqlparse import keywords, tokens as T
    out = []
    word = RL._set_re([(48, 57), (65, 90), (95, 95), (97, 122)])       # (an ASCII word character is enough for a witness)
    for rx, a in keywords.SQL_REGEX:
        if a is keywords.PROCESS_AS_KEYWORD or a not in T.Keyword or not any(c.isalpha() for c in rx):
            continue
        oid = '%s/keywords.SQL_REGEX/keyword rule %r ends at a word boundary in every alternative' % (prop, rx)
        o = Obl(oid, FN, kind='smt', backend='z3-regex')
        t0 = time.time()
        try:
            branches = RL.translate_ctx(rx)
        except RL.Unsupported as e:
            o.status, o.detail = UNDECIDED, {'rule': rx, 'why': 'outside the translated subset: %s' % e}
            out.append(o)
            continue
        bad = None
        m = z3.String('m')
        for lb, rxz, la in branches:
            if la is not None and not RL.ctx_holds(la, 'x'):
                continue            # a word character may not follow: fine
            v, md = RL.decide_empty([z3.InRe(m, z3.Intersect(rxz, z3.Concat(RL.all_strings(), word)))], 10000)
            if v == 'unsat':
                continue            # this alternative never ends in a word character
            if v != 'sat':
                bad = ('unknown', None)
                break
            text = _z3str(md, m)
            toks = _lex(text + 'x')
            if toks and toks[0][1] == text and toks[0][0] is a:
                bad = ('sat', text)
                break
            bad = bad or ('not-reproduced', text)
        if bad is None:
            o.status, o.detail = DISCHARGED, {'rule': rx, 'branches': len(branches)}
        elif bad[0] == 'sat':
            o.status = FAILED
            o.detail = {'rule': rx, 'text': bad[1]}
            o.witness = {'input': bad[1] + 'x', 'failure': 'the beginning %r of the word-like text %r is lexed as a %s token'
                         % (bad[1], bad[1] + 'x', a), 'reproduced': True}
        else:
            o.status, o.detail = UNDECIDED, {'rule': rx, 'verdict': bad[0], 'text': bad[1]}
        o.seconds = time.time() - t0
        out.append(o)
    return out


def obligations(prop):
    from sqlparse import keywords, tokens as T
    table = list(keywords.SQL_REGEX)
    out = [_rule_application(prop)]
    for kind, (opener, typ, ident, S, closer, S2, S1) in specs(T).items():
        S1 = S1 if S1 is not None else S        # (the language O1 is stated for)
        t0 = time.time()
        cands = [(i, rx) for i, (rx, a) in enumerate(table)
                 if a is not keywords.PROCESS_AS_KEYWORD and (a is typ if ident else a in typ)
                 and regexfacts.can_start_with(rx, opener)]
        s = z3.String('s')
        used, unsupported = [], []
        covered = False
        branches = []        # contexted branches (condition on the text before, language, condition on the text after)
        for i, rx in cands:
            try:
                br = RL.translate_ctx(rx)
            except RL.Unsupported as e:
                unsupported.append((i, rx, str(e)))
                # what an untranslated rule matches is unknown: the rules behind it may or may not be reached
                break
            branches += br
            if len(br) == 1 and br[0][0] is None and br[0][2] is None:
                L = RL.translate(rx)
                Lin = RL.translate(rx, eot_as='none')
                used.append((i, rx, L, Lin))
                v, _ = RL.decide_empty([z3.InRe(s, S1), z3.Not(z3.InRe(s, L.re))])
                if v == 'unsat':
                    covered = True
                    break
            else:
                used.append((i, rx, None, None))
        base = '%s/keywords.SQL_REGEX/region language, %s' % (prop, kind)
        det = {'rules': [rx for _, rx, _, _ in used], 'untranslated': [(rx, why) for _, rx, why in unsupported],
               'contexts': 'the region stands alone, or directly behind / in front of one whitespace character or one of ( ) , ; ='}
        # ---- O1 (in context: look-behind / look-ahead conditions of a rule are conditions on the neighbouring character)
        o = Obl(base + '/O1 every well-formed region is matched in full by its rule', FN, kind='smt', backend='z3-regex')
        if not used:
            o.status, o.detail = UNDECIDED, dict(det, reason='no translated rule for this region')
        else:
            # the neighbouring characters are enumerated (nothing, every whitespace character, ( ) , ; =); contexts that
            # enable the same branches share one query  S minus the union of the enabled branches' languages = empty
            ctxs = [''] + [chr(c) for a, b in RL.category_ranges('space') for c in range(a, b + 1)] + list('(),;=')
            v, m, l_, r_ = 'unsat', None, '', ''
            if not covered:
                if all(lb is None and la is None for lb, _, la in branches):
                    groups = {frozenset(range(len(branches))): ('', '')}
                else:
                    okl = {c: frozenset(k for k, (lb, _, _) in enumerate(branches) if RL.ctx_holds(lb, c)) for c in ctxs}
                    okr = {c: frozenset(k for k, (_, _, la) in enumerate(branches) if RL.ctx_holds(la, c)) for c in ctxs}
                    groups = {}
                    for cl in ctxs:
                        for cr in ctxs:
                            groups.setdefault(okl[cl] & okr[cr], (cl, cr))
                for en, (cl, cr) in sorted(groups.items(), key=lambda kv: len(kv[0])):
                    langs = [branches[k][1] for k in sorted(en)]
                    cs = [z3.InRe(s, S1)]
                    if langs:
                        cs.append(z3.Not(z3.InRe(s, z3.Union(*langs) if len(langs) > 1 else langs[0])))
                    v1, m1 = RL.decide_empty(cs)
                    if v1 == 'sat':
                        v, m, l_, r_ = 'sat', m1, cl, cr
                        break
                    if v1 != 'unsat':
                        v = 'unknown'
            if v == 'unsat':
                o.status, o.detail = DISCHARGED, det
            elif v == 'sat':
                text = _z3str(m, s)
                toks = _lex(l_ + text + r_)
                at, hit = 0, None
                for tt, val in toks:
                    if at == len(l_):
                        hit = (tt, val)
                    at += len(val)
                bad = not (hit is not None and hit[1] == text and (hit[0] is typ if ident else hit[0] in typ))
                text = l_ + text + r_
                if bad and not unsupported:
                    o.status = FAILED
                    o.witness = {'input': text, 'failure': 'the well-formed %s %r is lexed as %r' % (kind, text, toks[:6]),
                                 'reproduced': True}
                else:
                    o.status = UNDECIDED
                o.detail = dict(det, verdict='sat', model=text, lexed=str(toks[:6]),
                                reproduced_on_the_real_lexer=bad)
            else:
                o.status, o.detail = UNDECIDED, dict(det, verdict='unknown')
        o.seconds = time.time() - t0
        out.append(o)
        # ---- O2 / O3 per rule
        for i, rx, L, Lin in used:
            t1 = time.time()
            if L is None:
                out.append(Obl(base + '/rule %r has look-arounds (O2/O3 not stated)' % rx, FN, kind='structural',
                               backend='structural', status=UNDECIDED, detail={'rule': rx}))
                continue
            if L.lazy and not L.greedy or (L.lazy and L.greedy):
                # (a rule without quantifiers matches texts of one length per alternative: treated like a lazy one)
                o = Obl(base + '/O2 rule %r cannot stop before the region ends' % rx, FN, kind='smt', backend='z3-regex')
                p, u = z3.String('p'), z3.String('u')
                So = S2 if S2 is not None else S
                # (one string, one regular language: S intersected with  L . AnyChar+ )
                v, m = RL.decide_empty([z3.InRe(s, z3.Intersect(So, z3.Concat(Lin.re, z3.Plus(RL.any_char()))))])
                if v == 'sat':
                    v2, m2 = RL.decide_empty([s == m.eval(s, model_completion=True), s == z3.Concat(p, u), z3.Length(u) > 0,
                                              z3.InRe(p, Lin.re)])
                    m = m2 if v2 == 'sat' else m
                if v == 'unsat':
                    o.status, o.detail = DISCHARGED, {'rule': rx, 'lazy': True}
                elif v == 'sat':
                    text, pre = _z3str(m, s), _z3str(m, p)
                    toks = _lex(text)
                    bad = not (len(toks) >= 1 and toks[0][1] == text)
                    o.status = FAILED if bad else UNDECIDED
                    if bad:
                        o.witness = {'input': text, 'failure': 'the %s %r is not one token: %r' % (kind, text, toks[:6]),
                                     'reproduced': True}
                    o.detail = {'rule': rx, 'verdict': 'sat', 'region': text, 'prefix_in_language': pre,
                                'reproduced_on_the_real_lexer': bad}
                else:
                    o.status, o.detail = UNDECIDED, {'rule': rx, 'verdict': 'unknown'}
                o.seconds = time.time() - t1
                out.append(o)
            if L.greedy and not L.lazy:
                o = Obl(base + '/O3 rule %r cannot run past the region end' % rx, FN, kind='smt', backend='z3-regex')
                w, x = z3.String('w'), z3.String('x')
                first = RL.not_chars(closer) if closer else RL.any_char()
                # (one string, one regular language: L intersected with  S . <a character that is not the closer> . AnyChar* )
                v, m = RL.decide_empty([z3.InRe(x, z3.Intersect(L.re, z3.Concat(S, first, RL.all_strings())))])
                if v == 'sat':
                    cs = [x == m.eval(x, model_completion=True), x == z3.Concat(s, w), z3.InRe(s, S), z3.Length(w) > 0]
                    if closer:
                        cs.append(z3.Not(z3.PrefixOf(z3.StringVal(closer), w)))
                    v2, m2 = RL.decide_empty(cs)
                    if v2 == 'sat':
                        m = m2
                    else:
                        v = 'unknown'
                if v == 'unsat':
                    o.status, o.detail = DISCHARGED, {'rule': rx, 'greedy': True}
                elif v == 'sat':
                    text, ext = _z3str(m, s), _z3str(m, w)
                    toks = _lex(text + ext)
                    bad = not (len(toks) >= 1 and toks[0][1] == text)
                    o.status = FAILED if bad else UNDECIDED
                    if bad:
                        o.witness = {'input': text + ext,
                                     'failure': 'the %s %r followed by %r is not lexed as one token followed by the rest: %r'
                                                % (kind, text, ext, toks[:6]), 'reproduced': True}
                    o.detail = {'rule': rx, 'verdict': 'sat', 'region': text, 'continuation': ext,
                                'reproduced_on_the_real_lexer': bad}
                else:
                    o.status, o.detail = UNDECIDED, {'rule': rx, 'verdict': 'unknown'}
                o.seconds = time.time() - t1
                out.append(o)
            if not L.greedy and not L.lazy:
                out.append(Obl(base + '/rule %r mixes lazy and greedy quantifiers (O2/O3 not stated)' % rx, FN, kind='structural',
                               backend='structural', status=UNDECIDED, detail={'rule': rx}))
        for i, rx, why in unsupported:
            out.append(Obl(base + '/rule %r is outside the translated subset' % rx, FN, kind='structural', backend='structural',
                           status=UNDECIDED, detail={'rule': rx, 'why': why}))
    return out
