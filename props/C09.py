"""C09 — bracketed and block groups are exactly the properly matched pairs."""
from props import common, generic, tree_common as tc


def run(rep):
    common.load_contracts()
    from contracts.grouping import DELIMITER_CASES, MATCHER_SHAPE_CASES
    return generic.run_generic(
        rep, [(tc.GT, 'new group'), (tc.GT, 'extend flag')] + tc.MATCHER_FUNCS + tc.JOINER_FUNCS[:1] + list(DELIMITER_CASES) + list(MATCHER_SHAPE_CASES)
        + [('sqlparse.sql.Token.__init__', 'body')],   # closers such as END IF are matched on the normalized text
        structural=[tc.pass_order, tc.grouping_frame, tc.identity_side_conditions],
        assumptions=['group_tokens(cls, open_idx, close_idx) creates ONE group that owns exactly tokens[open_idx..close_idx] '
                     '(proved): its first child is the opener and its last child the closer whenever the driver passes '
                     'the indices of a matching opener/closer',
                     '_group_matching (all six classes): loop invariant "current list = processed prefix ++ unvisited rest of '
                     'the snapshot", sorted stack of open positions below the current position, hence 0 <= open_idx < '
                     'close_idx < len at every group_tokens call, the group ends with the visited closing token, every '
                     'sub-group of another class is descended into, no exception (proved).  That the popped position holds '
                     'the matching OPENER token (stack entries <-> tokens) is not expressed by the contract: that half, and '
                     'the comparison with an independent stack matcher, is the bounded stand-in; in addition _group_matching is '
                     'executed on explicit token lists (nested parentheses x ( a ( b ) c ) y; unmatched ) a ( b; CASE WHEN a '
                     'THEN b END y; a CASE inside a Parenthesis group) and must produce exactly the textbook pairs: these shape '
                     'cases name no loop ordinal or local, so they keep deciding after a rewrite of the matcher',
                     'later passes never absorb a delimiter: _group groups no range that contains an element for which '
                     '_is_delimiter holds (proved, interval summary over the real guard), and _is_delimiter is verified per '
                     'class against the property\'s notion of a delimiter: the first child, and every leaf that matches the '
                     'class\'s closing pattern wherever it stands (comments may be attached behind it); never a group child'],
        trusted=['ownership-based local invariants (methodology)'],
        extra_functions=['sqlparse.engine.grouping._group_matching', 'sqlparse.engine.grouping._group'])


def replay(path):
    return generic.replay_generic('C09', path)
