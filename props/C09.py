"""C09 — bracketed and block groups are exactly the properly matched pairs."""
from props import common, generic, tree_common as tc


def run(rep):
    return generic.run_generic(
        rep, [(tc.GT, 'new group'), (tc.GT, 'extend flag')],
        structural=[tc.pass_order, tc.grouping_frame, tc.identity_side_conditions],
        assumptions=['group_tokens(cls, open_idx, close_idx) creates ONE group that owns exactly tokens[open_idx..close_idx] '
                     '(proved): its first child is the opener and its last child the closer whenever the driver passes '
                     'the indices of a matching opener/closer',
                     'that _group_matching passes exactly the pairs of the textbook stack matcher (index offset correction, '
                     'recursion into groups of earlier kinds only) is covered by the bounded stand-in: an independent stack '
                     'matcher compared with the parsed tree on every enumerated input; not yet under contract',
                     'later passes never absorb a delimiter: bounded stand-in (+ the two repaired call sites)'],
        trusted=['ownership-based local invariants (methodology)'],
        extra_functions=['sqlparse.engine.grouping._group_matching', 'sqlparse.engine.grouping._group'])


def replay(path):
    return generic.replay_generic('C09', path)
