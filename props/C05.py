"""C05 — statements end exactly at top-level semicolons; opaque regions never split."""
from pyvc import core, grammar, regexfacts
from pyvc.core import Obl, DISCHARGED, FAILED, UNDECIDED
from props import common, splitter_common as sc

CSL = 'sqlparse.engine.statement_splitter.StatementSplitter._change_splitlevel'
PLAIN_FAMS = ('TOP', 'TOPP', 'RESET')
PROC_NTS = {l for l, _ in grammar.parse_rules(grammar.PROC)} | {l for l, _ in grammar.parse_rules(grammar.TOPLEVEL)}


def select(lhs, fam):
    if lhs == 'plain_terminated':
        return True
    return fam in PLAIN_FAMS and lhs not in PROC_NTS


def region_rule_obligations(rep):
    """data obligations over the real SQL_REGEX: the opaque-region rules come before the word, punctuation and
    operator rules, and no earlier rule can start with the region's opening character"""
    from sqlparse import keywords, tokens as T
    table = keywords.SQL_REGEX
    idx_word = next((i for i, (rx, a) in enumerate(table) if a is keywords.PROCESS_AS_KEYWORD), None)
    idx_punct = next((i for i, (rx, a) in enumerate(table) if a is T.Punctuation and ';' in rx), None)
    regions = [("'", T.String.Single), ('"', T.String.Symbol), ('`', T.Name), ('/', T.Comment.Multiline),
               ('-', T.Comment.Single)]
    for ch, typ in regions:
        first = next((i for i, (rx, a) in enumerate(table)
                      if a is not keywords.PROCESS_AS_KEYWORD and (a is typ or (a in typ and typ is not T.Name))
                      and _can_start(rx, ch)), None)
        oid = 'C05/keywords.SQL_REGEX/region %r rule precedes punctuation and word rules' % ch
        ok = first is not None and idx_punct is not None and idx_word is not None and first < idx_punct \
            and first < idx_word
        common.structural(rep, oid, 'sqlparse.keywords.SQL_REGEX', ok,
                          {'first_rule_index': first, 'punctuation_rule': idx_punct, 'word_rule': idx_word})
        if first is not None:
            earlier = [i for i in range(first) if _can_start(table[i][0], ch)
                       and not (table[i][1] in typ if typ is not T.Name else table[i][1] is typ)
                       and not (table[i][1] is not keywords.PROCESS_AS_KEYWORD and table[i][1] in T.Comment
                                and typ in T.Comment)]
            common.structural(rep, 'C05/keywords.SQL_REGEX/no earlier rule of another kind can start with %r' % ch,
                              'sqlparse.keywords.SQL_REGEX', not earlier,
                              {'earlier_rules': [table[i][0] for i in earlier]})


def region_language_obligations(rep, prop):
    from props import region_lang
    for o in region_lang.obligations(prop):
        rep.add(o)


def _can_start(rx, ch):
    return regexfacts.can_start_with(rx, ch)


def run(rep):
    common.verify_functions(rep, [(CSL, 'opaque token'), (CSL, 'punctuation'), (CSL, 'total'), (CSL, 'state invariant')])
    pc = sc._pc('C05')
    for o in sc.production_obligations('C05', select):
        if o.status == FAILED:
            o.witness = sc.replay_production(o, 'plain')
        rep.add(o)
    for k in ('trivia', 'other'):
        rep.add(grammar.check_after_terminator(pc, 'C05', k))
    rep.add(grammar.check_terminator(pc, 'C05'))
    region_rule_obligations(rep)
    region_language_obligations(rep, 'C05')
    sc.lexical_independence(rep, 'C05')
    rep.functions += [grammar.PROCESS, 'sqlparse.engine.statement_splitter.StatementSplitter._reset']
    common.run_bounded(rep, 'C05', rep.tier, rep.seed)
    rep.assumptions += [
        'structural induction over the verification grammar (DESIGN 3.5/4.5): per-production Hoare triples over the '
        'real loop body of StatementSplitter.process compose to every derivation (paper argument)',
        'terminal spellings are tokenised by the real lexer in a blank-delimited context (re semantics trusted)',
        'string / quoted-name / comment bodies are single tokens: the region rules as regular languages (O1-O3, z3 regex '
        'theory; which of several matching prefixes backtracking picks, and dollar-quoted bodies: bounded only)',
        'a keyword token value contains at least one word (lexer fact)']
    rep.trusted += ['re (CPython) for tokenising terminal spellings', 'grammar of DESIGN 4.5 as the induction structure']
    return common.finish(rep)


def replay(path):
    import json
    import sqlparse
    d = json.load(open(path))
    w = d.get('witness') or d.get('case')
    print('replay of', d.get('obligation', d.get('id')))
    if isinstance(w, dict) and w.get('input'):
        got = sqlparse.split(w['input'])
        print('input:', repr(w['input']))
        print('split ->', len(got), 'pieces; expected', w.get('expected_statements'))
        return 1 if len(got) != w.get('expected_statements') else 0
    print('no concrete input recorded')
    return 1
