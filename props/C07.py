"""C07 — totality: any text and any valid option set gives a result or SQLParseError."""
import ast

from pyvc.core import source
from props import common, generic, tree_common as tc


def validation_dominates(rep):
    n = source().get('sqlparse.format')
    txt = ast.unparse(n) if n else ''
    ok = n is not None and 'options = formatter.validate_options(options)' in txt \
        and txt.index('validate_options') < txt.index('build_filter_stack') < txt.index('.run(')
    common.structural(rep, 'C07/sqlparse.format/options are validated before the filter stack is built and run',
                      'sqlparse.format', ok, {}, undecided_if_false=True)


def closer_sites_agree(rep):
    """Cooperating sites: _group_matching guarantees that a block group ends with a token matching ITS class's M_CLOSE
    (proved there).  Code that looks the closer up again with a literal pattern - the CASE layout routines, which then
    insert relative to the token found, and Case.get_cases - must accept every closer M_CLOSE admits, otherwise the
    lookup yields None and insert_before(None, ...) raises ValueError.  Decided on the real Token.match: for every value v
    of sql.Case.M_CLOSE, Token(Keyword, v) matches the pattern used at the site."""
    from pyvc.core import import_repo
    import_repo()
    from sqlparse import sql, tokens as T
    import sqlparse.filters.aligned_indent as ai
    import sqlparse.filters.reindent as ri
    src = source()
    mclose = sql.Case.M_CLOSE
    vals = (mclose[1],) if isinstance(mclose[1], str) else tuple(mclose[1])
    sites = 0
    for q, mod in (('sqlparse.filters.aligned_indent.AlignedIndentFilter._process_case', ai),
                   ('sqlparse.filters.reindent.ReindentFilter._process_case', ri),
                   ('sqlparse.sql.Case.get_cases', sql)):
        n = src.get(q)
        if n is None:
            common.structural(rep, 'C07/%s/exists' % q, q, False, {}, undecided_if_false=True)
            continue
        env = dict(vars(mod))
        env.setdefault('sql', sql)
        env.setdefault('T', T)
        for c in ast.walk(n):
            if not isinstance(c, ast.Call) or not isinstance(c.func, ast.Attribute):
                continue
            pat = None
            if c.func.attr == 'token_next_by':
                kw = [k.value for k in c.keywords if k.arg == 'm']
                pat_node = kw[0] if kw else None
            elif c.func.attr == 'match':
                pat_node = ast.Tuple(elts=list(c.args), ctx=ast.Load()) if len(c.args) >= 2 else (
                    c.args[0].value if len(c.args) == 1 and isinstance(c.args[0], ast.Starred) else None)
            else:
                continue
            if pat_node is None:
                continue
            try:
                pat = eval(compile(ast.Expression(ast.fix_missing_locations(pat_node)), '<site>', 'eval'), env, {'self': sql.Case, 'tlist': sql.Case})
            except Exception:       # noqa  (depends on local values: not a closer lookup with a constant pattern)
                continue
            if not (isinstance(pat, tuple) and len(pat) >= 2 and pat[0] is mclose[0]):
                continue
            pvals = (pat[1],) if isinstance(pat[1], str) else tuple(pat[1] or ())
            if not any(str(v).upper().startswith('END') for v in pvals):
                continue
            sites += 1
            missed = [v for v in vals if not sql.Token(mclose[0], v).match(*pat)]
            common.structural(rep, 'C07/%s:%d/the closer lookup accepts every closer that Case.M_CLOSE admits' % (q, c.lineno),
                              q, not missed, {'pattern': repr(pat), 'M_CLOSE': repr(mclose), 'not accepted': missed})
    common.structural(rep, 'C07/CASE closer lookups/sites inspected', 'sqlparse.sql.Case', sites >= 3, {'sites': sites},
                      undecided_if_false=True)


def _dyn_candidates(txt):
    """python values for a Dyn term printed by z3 (DNone, DBool(True), DInt(5), DStr("x"), DFloat(k, t, e), DOther(n))"""
    import re
    t = str(txt)
    if t.startswith('DNone'):
        return [None]
    m = re.match(r'DBool\((\w+)\)', t)
    if m:
        return [m.group(1) == 'True']
    m = re.match(r'DInt\((-?\d+)\)', t)
    if m:
        return [int(m.group(1))]
    m = re.match(r'DStr\("(.*)"\)', t)
    if m:
        return [m.group(1)]
    m = re.match(r'DFloat\((-?\d+), (-?\d+), (\w+)\)', t)
    if m:
        k, tr, exact = int(m.group(1)), int(m.group(2)), m.group(3) == 'True'
        return [float('inf'), float('-inf')] if k == 1 else [float('nan')] if k == 2 else [float(tr) if exact else tr + 0.5]
    if t.startswith('DOther'):
        return [[], {}, (), object()]
    return []


def replay_options(rep):
    """counter-models of validate_options obligations replayed through sqlparse.format on the real code: one option at a
    time with the value of the model (an `other object` is tried as a list, a dict, a tuple and a plain object)"""
    from pyvc.core import import_repo, FAILED
    sqlparse = import_repo()
    from sqlparse.exceptions import SQLParseError
    for ob in rep.obls:
        if ob.status != FAILED or ob.fn != 'sqlparse.formatter.validate_options':
            continue
        model = (ob.witness or {}).get('model') or (ob.detail or {}).get('model') or {}
        found = None
        for k, v in sorted(model.items()):
            if not k.startswith('opt_') or found:
                continue
            name = k[4:]
            for val in _dyn_candidates(v):
                try:
                    sqlparse.format('select 1', **{name: val})
                except SQLParseError:
                    continue
                except Exception as e:      # noqa
                    found = {'input': ('option', name, repr(val)), 'failure': 'format("select 1", %s=%r) raised %s: %s'
                             % (name, val, type(e).__name__, str(e)[:80]), 'reproduced': True}
                    break
        if found:
            ob.witness = dict(ob.witness or {}, **found)


def run(rep):
    from props.C15 import run_obligations
    def rec(r):
        n0 = len(r.obls)
        run_obligations(r)
        for o in r.obls[n0:]:
            o.id = 'C07/' + o.id.split('/', 1)[1]
    funcs = [('sqlparse.formatter.validate_options', None), ('sqlparse.sql.Statement.get_type', None),
             ('sqlparse.utils.consume', None), ('sqlparse.lexer.Lexer.get_tokens', 'text is str'),
             ('sqlparse.engine.statement_splitter.StatementSplitter._change_splitlevel', 'total'),
             ('sqlparse.filters.tokens._CaseFilter.process', 'KeywordCaseFilter'),
             ('sqlparse.filters.tokens.IdentifierCaseFilter.process', None),
             ('sqlparse.filters.tokens.TruncateStringFilter.process', None),
             ('sqlparse.filters.others.StripWhitespaceFilter.process', 'body'),
             ('sqlparse.sql.TokenList.get_parent_name', None), ('sqlparse.utils.remove_quotes', None),
             ('sqlparse.utils.remove_quotes', 'None')] + tc.NAV_FUNCS + tc.OFFSET_FUNCS + \
            [(tc.GT, 'new group'), (tc.GT, 'extend flag')] + tc.MATCHER_FUNCS + tc.PASS_FUNCS + tc.JOINER_FUNCS
    common.load_contracts()
    from contracts.sql import ACCESSOR_TOTAL
    from contracts.filters import CASE_LAYOUT_CASES, OUTPUT_FILTER_CASES
    funcs = funcs + list(ACCESSOR_TOTAL) + [('sqlparse.sql.IdentifierList.get_identifiers', 'body')] + list(CASE_LAYOUT_CASES) \
        + list(OUTPUT_FILTER_CASES)
    return generic.run_generic(
        rep, funcs, structural=[replay_options, validation_dominates, closer_sites_agree, rec],
        assumptions=['option values range over None | bool | int | float (finite, inf, nan) | str | other object; objects '
                     'with custom __eq__/__int__/__bool__ are outside the modelled domain',
                     'raises-clauses are proved for the functions listed under contract (incl. the read-only accessors '
                     'is_wildcard, get_typecast, get_ordering, Comparison.left/right, get_window, get_parameters [given the '
                     'Function shape: a Parenthesis child], get_alias, get_real_name, get_name, has_alias, _get_first_name, '
                     'get_parent_name, get_token_at_offset on an arbitrary well-formed node); get_cases, get_identifiers '
                     'as generators, and the tree filters (StripComments, StripWhitespace, '
                     'SpacesAroundOperators, Reindent, AlignedIndent) are covered by the bounded stand-in; the two output filters are total (proved) '
                     '(token soups x 14 option sets, accessor walk) only',
                     'RecursionError: obligations of C15'],
        trusted=['CPython re engine'])


def replay(path):
    return generic.replay_generic('C07', path)
