"""C07 — totality: any text and any valid option set gives a result or SQLParseError."""
import ast

from pyvc.core import source
from props import common, generic, tree_common as tc


def validation_dominates(rep):
    n = source().get('sqlparse.format')
    txt = ast.unparse(n) if n else ''
    ok = n is not None and 'options = formatter.validate_options(options)' in txt \
        and txt.index('validate_options') < txt.index('build_filter_stack') < txt.index('.run(')
    common.structural(rep, 'C07/sqlparse.format/options are validated before the filter stack is built and run',
                      'sqlparse.format', ok, {}, undecided_if_false=True)


def run(rep):
    from props.C15 import run_obligations
    def rec(r):
        n0 = len(r.obls)
        run_obligations(r)
        for o in r.obls[n0:]:
            o.id = 'C07/' + o.id.split('/', 1)[1]
    funcs = [('sqlparse.formatter.validate_options', None), ('sqlparse.sql.Statement.get_type', None),
             ('sqlparse.utils.consume', None), ('sqlparse.lexer.Lexer.get_tokens', 'text is str'),
             ('sqlparse.engine.statement_splitter.StatementSplitter._change_splitlevel', 'total'),
             ('sqlparse.filters.tokens._CaseFilter.process', 'KeywordCaseFilter'),
             ('sqlparse.filters.tokens.IdentifierCaseFilter.process', None),
             ('sqlparse.filters.tokens.TruncateStringFilter.process', None),
             ('sqlparse.filters.others.StripWhitespaceFilter.process', 'body'),
             ('sqlparse.sql.TokenList.get_parent_name', None), ('sqlparse.utils.remove_quotes', None),
             ('sqlparse.utils.remove_quotes', 'None')] + tc.NAV_FUNCS + \
            [(tc.GT, 'new group'), (tc.GT, 'extend flag')] + tc.MATCHER_FUNCS + tc.PASS_FUNCS + tc.JOINER_FUNCS
    return generic.run_generic(
        rep, funcs, structural=[validation_dominates, rec],
        assumptions=['option values range over None | bool | int | float (finite, inf, nan) | str | other object; objects '
                     'with custom __eq__/__int__/__bool__ are outside the modelled domain',
                     'raises-clauses are proved for the functions listed under contract; the grouping drivers, the '
                     'accessors other than get_type, and the tree filters (StripComments, StripWhitespace, '
                     'SpacesAroundOperators, Reindent, AlignedIndent, output filters) are covered by the bounded stand-in '
                     '(token soups x 14 option sets, accessor walk) only',
                     'RecursionError: obligations of C15'],
        trusted=['CPython re engine'])


def replay(path):
    return generic.replay_generic('C07', path)
