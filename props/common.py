"""Shared helpers for the per-property check modules."""
import importlib
import json
import multiprocessing as mp
import os
import sys
import time

from pyvc import core, smt
from pyvc.core import Obl, DISCHARGED, FAILED, UNDECIDED, STALE

PY_ASSUMPTIONS = [
    'Python int is mathematical; str is a finite sequence of code points (z3 String); no implicit normalisation',
    'left-to-right evaluation, short-circuit and/or, chained comparisons as in CPython',
    'Token/TokenList objects compare by identity and are always truthy (side-condition obligations check that no '
    'class in sqlparse.sql defines __eq__/__hash__/__bool__/__len__)',
    'no monkey patching; module globals are constants after import; class hierarchy as in the source',
    'a generator is modelled as the function from its input sequence to the sequence it yields',
    'the symbolic executor pyvc (this repository, /verif/pyvc) encodes the Python subset correctly '
    '(validated by seeded mutants, see DESIGN 9)',
]
TRUSTED_COMMON = ['pyvc symbolic executor and VC generator (/verif/pyvc)', 'z3 5.1.0 (cvc5 1.0.3 for z3 unknowns)',
                  'CPython 3.12 ast module']


def load_contracts():
    for m in ('lexer', 'splitter', 'filters', 'formatter', 'sql', 'grouping'):
        try:
            importlib.import_module('contracts.' + m)
        except ModuleNotFoundError as e:
            if 'contracts.' + m not in str(e):
                raise


def verify_functions(rep, items, workers=None):
    """items: list of (qualname, case).  Runs each under its sidecar contract (in a process pool) and adds the
    obligations to the report."""
    from pyvc.spec import Verifier, REG
    load_contracts()
    out = []
    if rep.tier == 'quick':
        keep = []
        for q, c in items:
            con = REG.cases.get((q, c))
            if con is not None and getattr(con, 'tier', 'quick') == 'thorough':
                rep.notes.append('deferred to the thorough tier (slow VC generation): %s[%s]' % (q, c))
            else:
                keep.append((q, c))
        items = keep
    if len(items) <= 2 or os.environ.get('PYVC_SERIAL'):
        v = Verifier(rep.prop)
        for q, c in items:
            out.extend(v.verify(q, c))
    else:
        with mp.get_context('fork').Pool(min(workers or 16, len(items))) as pool:
            for obls in pool.map(_verify_one, [(rep.prop, q, c) for q, c in items]):
                out.extend(obls)
    rep.extend(out)
    rep.functions.extend(q for q, _ in items)
    from pyvc import models
    return out


def _verify_one(a):
    prop, q, c = a
    from pyvc.spec import Verifier
    try:
        obls = Verifier(prop).verify(q, c)
    except BaseException as e:   # a crash of the engine on one function = undecided for that function, not a fault
        import traceback
        obls = [Obl('%s/%s%s/engine-error' % (prop, q, '[%s]' % c if c else ''), q, status=UNDECIDED,
                    detail={'reason': 'engine error: %s: %s' % (type(e).__name__, e),
                            'tb': traceback.format_exc()[-600:]})]
    from pyvc import models
    for o in obls:
        o.detail = json.loads(json.dumps(o.detail, default=str))
        o.detail['lib_models_used'] = sorted(models.LIB_USED)
        o.detail['callee_contracts_used'] = sorted(models.CALLEE_MODELS_USED)
    return obls


def structural(rep, oid, fn, ok, detail=None, undecided_if_false=False, finding_key=None):
    """a data/structure obligation decided by a total function over a finite table or the AST (no solver).
    undecided_if_false: a *shape* mismatch (the code was restructured) is not by itself a violation."""
    st = DISCHARGED if ok else (UNDECIDED if undecided_if_false else FAILED)
    o = Obl(oid, fn, kind='structural', backend='structural', status=st, detail=detail or {}, finding_key=finding_key)
    rep.add(o)
    return o


def run_bounded(rep, name, tier, seed, budget_quick=25.0, budget_thorough=480.0):
    """bounded stand-in for property `name` with the oracle/cases of pyvc.oracles (never counted as proved)"""
    if os.environ.get('VERIF_PROOF_ONLY'):
        rep.notes.append('bounded stand-in skipped (VERIF_PROOF_ONLY: self-test of the proof obligations)')
        return None
    from pyvc import bounded, oracles
    cases_fn = getattr(oracles, 'cases_' + name, None)
    if cases_fn is None or not hasattr(oracles, 'oracle_' + name):
        rep.notes.append('bounded stand-in for %s not available' % name)
        return None
    # quick: the domain is fixed and is enumerated completely (3-16 s on an idle 16-core machine); the time value is only
    # a safety cap, wide enough that a busy machine does not change what is explored.  thorough: as deep as the cap allows.
    budget = budget_quick * 10 if tier == 'quick' else budget_thorough
    r = bounded.run(name, 'oracle_' + name, cases_fn(tier, seed),
                    classify_name='classify_' + name if hasattr(oracles, 'classify_' + name) else None,
                    budget_s=budget, rule=getattr(oracles, 'RULE_' + name, ''),
                    chunk=getattr(oracles, 'CHUNK_' + name, 200))
    if not r.get('exhaustive', True) and tier == 'quick':
        print('NOTE: the bounded stand-in of %s was cut by its time cap after %d cases' % (name, r.get('evaluations', 0)))
    r['label'] = 'BOUNDED stand-in (not proof): oracle = executable transcription of the property statement'
    rep.bounded.append(r)
    return r


def oracle_replay(rep, obls, prop, candidates, budget_s=5.0):
    """try to reproduce failed / undecided obligations on the real code with the native oracle"""
    from pyvc import oracles
    orc = getattr(oracles, 'oracle_' + prop, None)
    if orc is None:
        return None
    t0 = time.time()
    for c in candidates:
        if time.time() - t0 > budget_s:
            break
        try:
            r = orc(c)
        except Exception:
            continue
        if r is not None:
            return {'input': c, 'failure': r, 'reproduced': True}
    return None


def finish(rep, level='proof'):
    from pyvc import models
    for a in PY_ASSUMPTIONS:
        if a not in rep.assumptions:
            rep.assumptions.append(a)
    for t in TRUSTED_COMMON:
        if t not in rep.trusted:
            rep.trusted.append(t)
    libs = set(models.LIB_USED)
    for o in rep.obls:
        for l in (o.detail or {}).get('lib_models_used', []) if isinstance(o.detail, dict) else []:
            libs.add(l)
    for l in sorted(libs):
        s = 'library contract (trusted): ' + l
        if s not in rep.trusted:
            rep.trusted.append(s)
    # mechanical scan: every repository function that was replaced by a contract / call-site model at a call in this
    # run, and whether the body of that function was verified against a contract in this same run
    callees = set(models.CALLEE_MODELS_USED)
    for o in rep.obls:
        for q in (o.detail or {}).get('callee_contracts_used', []) if isinstance(o.detail, dict) else []:
            callees.add(q)
    verified_here = set(rep.functions) | {o.fn for o in rep.obls if o.fn and o.kind == 'smt'}
    try:
        from pyvc.spec import REG
        has_body_contract = {q for (q, _c) in REG.cases}
    except Exception:       # noqa
        has_body_contract = set()
    for q in sorted(callees):
        if q in verified_here:
            continue
        if q in has_body_contract:
            a = ('callee used through its contract at call sites; its body is verified against that contract in another '
                 'check, not in this run: ' + q)
        else:
            a = ('ASSUMED callee contract (frame / result-shape model written by hand, body not verified against it): ' + q)
        if a not in rep.assumptions:
            rep.assumptions.append(a)
    extra = None
    if rep.tier == 'thorough' and not os.environ.get('VERIF_NO_SELFTEST') and not os.environ.get('VERIF_PROOF_ONLY'):
        from props import selftest
        extra = {'selftest': selftest.selftest(rep)}
    code = core.finish(rep, level, extra)
    if code == 2 and not os.environ.get('VERIF_STRICT'):
        print('note: undecided obligations are not alarms; exit 0 (set VERIF_STRICT=1 for exit 2)')
        return 0
    return code


def model_value(ob, name):
    """concrete value of an input variable in the counter-model of a failed obligation"""
    m = ((ob.witness or {}).get('model') or (ob.detail or {}).get('model') or {})
    v = m.get(name)
    if isinstance(v, dict):
        return v.get('str', v.get('int'))
    return None


def attach_replay(rep, prop, make_candidates, budget_s=5.0):
    """for every failed SMT obligation: turn the counter-model into candidate inputs and replay them on the real
    code with the native oracle (DESIGN 3.8)"""
    from pyvc import oracles
    orc = getattr(oracles, 'oracle_' + prop, None)
    if orc is None:
        return
    for ob in rep.obls:
        if ob.status != FAILED or ob.kind != 'smt':
            continue
        if ob.witness and ob.witness.get('reproduced'):
            continue
        t0 = time.time()
        found = None
        tried = 0
        for c in make_candidates(ob):
            if time.time() - t0 > budget_s:
                break
            tried += 1
            try:
                r = orc(c)
            except Exception:
                continue
            if r is not None:
                found = {'input': c, 'failure': r, 'reproduced': True}
                break
        w = dict(ob.witness or {})
        w.update(found or {'reproduced': False, 'candidates_tried': tried})
        ob.witness = w


def default_lexer_rules():
    """(pattern text, action) of every rule the DEFAULT lexer instance actually scans with, in scan order: the compiled
    table of a freshly initialised Lexer (this is keywords.SQL_REGEX unless the configuration code adds or reorders
    rules); entries that are not bound `match` methods of compiled patterns are returned with pattern None"""
    from sqlparse import lexer
    lx = lexer.Lexer()
    lx.default_initialization()
    out = []
    for m, a in lx._SQL_REGEX:
        pat = getattr(getattr(m, '__self__', None), 'pattern', None)
        out.append((pat if isinstance(pat, str) else None, a))
    return out
