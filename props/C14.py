"""C14 — literal, quoted-name and comment bodies are opaque; keywords classify by table."""
from pyvc import core, regexfacts
from pyvc.core import Obl, DISCHARGED, FAILED, UNDECIDED
from props import common
from props.C05 import region_rule_obligations, region_language_obligations


def dictionary_obligations(rep):
    """data obligations: registration order of the dictionaries; every key is an upper-case word that the generic
    word rule matches in full (so upper-casing the lexeme finds it)"""
    import re
    from sqlparse import keywords, lexer, tokens as T
    lx = lexer.Lexer()
    lx.default_initialization()
    want = ['KEYWORDS_COMMON', 'KEYWORDS_ORACLE', 'KEYWORDS_MYSQL', 'KEYWORDS_PLPGSQL', 'KEYWORDS_HQL',
            'KEYWORDS_MSACCESS', 'KEYWORDS_SNOWFLAKE', 'KEYWORDS_BIGQUERY', 'KEYWORDS']
    have = [next((n for n in want if getattr(keywords, n, None) is d), '?') for d in lx._keywords]
    common.structural(rep, 'C14/Lexer.default_initialization/dictionaries registered in the documented order',
                      'sqlparse.lexer.Lexer.default_initialization', have == want, {'registered': have})
    word_rule = next((rx for rx, a in keywords.SQL_REGEX if a is keywords.PROCESS_AS_KEYWORD), None)
    rxw = re.compile(word_rule, regexfacts.FLAGS) if word_rule else None
    for n in want:
        d = getattr(keywords, n, {})
        bad = [k for k in d if not (isinstance(k, str) and k == k.upper())]
        badt = [k for k, v in d.items() if not isinstance(v, T._TokenType)]
        notword = [k for k in d if isinstance(k, str) and not (rxw and rxw.fullmatch(k))]
        common.structural(rep, 'C14/keywords.%s/keys are upper-case (found by upper-casing the lexeme); values are token types' % n,
                          'sqlparse.keywords.' + n, not bad and not badt,
                          {'entries': len(d), 'bad': bad[:5] + badt[:5],
                           'entries_that_are_not_words_of_the_word_rule (unreachable, outside the property)': notword})
    # reset: clear() + default_initialization() give the same configuration whatever the state before
    lx2 = lexer.Lexer()
    lx2.default_initialization()
    lx2.add_keywords({'ZZTOP': T.Keyword})
    lx2.set_SQL_REGEX([(r'x', T.Name)])
    lx2.default_initialization()
    same = len(lx2._keywords) == len(lx._keywords) and all(a is b for a, b in zip(lx2._keywords, lx._keywords)) \
        and [m.__self__.pattern for m, _ in lx2._SQL_REGEX] == [m.__self__.pattern for m, _ in lx._SQL_REGEX]
    common.structural(rep, 'C14/Lexer.default_initialization/post-state independent of the pre-state (two-run)',
                      'sqlparse.lexer.Lexer.default_initialization', same, {})
    # ... and it is the DOCUMENTED configuration again, also for a lexer created after that history (no list object is
    # shared between the lexer and a module-level table that add_keywords() would then modify)
    lx3 = lexer.Lexer()
    lx3.default_initialization()
    have2 = [next((n for n in want if getattr(keywords, n, None) is d), '?') for d in lx2._keywords]
    have3 = [next((n for n in want if getattr(keywords, n, None) is d), '?') for d in lx3._keywords]
    o = common.structural(rep, 'C14/Lexer.default_initialization/after add_keywords() + default_initialization() the documented '
                          'dictionaries are registered again, for this and for any later lexer',
                          'sqlparse.lexer.Lexer.default_initialization', have2 == want and have3 == want,
                          {'after_history': have2, 'fresh_lexer_afterwards': have3})
    if not (have2 == want and have3 == want):
        o.witness = {'input': "Lexer().default_initialization(); add_keywords({'ZZTOP': Keyword}); default_initialization()",
                     'failure': 'the custom dictionary is still registered: %r' % (have2 if have2 != want else have3),
                     'reproduced': True}


def run(rep):
    common.verify_functions(rep, [('sqlparse.lexer.Lexer.is_keyword', 'full')])
    dictionary_obligations(rep)
    region_rule_obligations(rep)
    region_language_obligations(rep, 'C14')
    from props import region_lang
    for o in region_lang.keyword_rule_boundaries('C14'):
        rep.add(o)
    for o in rep.obls:
        if o.id.startswith('C05/'):
            o.id = 'C14/' + o.id[4:]
    common.run_bounded(rep, 'C14', rep.tier, rep.seed)
    rep.assumptions += ['opacity of region bodies: the region rules of SQL_REGEX as regular languages (z3 regex theory over code '
                        'points below 0x30000: O1 every well-formed region is in its rule\'s language, O2 a lazy rule cannot stop '
                        'early, O3 a greedy rule cannot run on); the translation of re syntax to a language is trusted and '
                        'every counter-model is replayed on the real lexer; which of several matching prefixes backtracking '
                        'picks, look-around rules and dollar-quoted bodies (back reference): BOUNDED only',
                        'dict membership / lookup modelled as uninterpreted functions per dictionary']
    rep.trusted += ['CPython re engine', 'dict']
    return common.finish(rep)


def replay(path):
    import json
    from pyvc import oracles
    d = json.load(open(path))
    case = d.get('case')
    if isinstance(case, list):
        case = tuple(case)
    r = oracles.oracle_C14(case) if case is not None else None
    print('case', repr(case), '->', r)
    return 1 if r else 0
