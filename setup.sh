#!/bin/sh
# Build the overlay interpreter for the checks (offline, idempotent).
# Python 3.12.1 (same interpreter as the repo's test-suite) + z3-solver, cvc5, crosshair-tool, deal, icontract
# from the offline wheelhouse.
set -e
cd "$(dirname "$0")"
V=.venv
if [ ! -x $V/bin/python ] || ! $V/bin/python -c "import z3, cvc5" 2>/dev/null; then
  rm -rf $V
  /venv/bin/python -m venv $V
  PIP_NO_INDEX=1 $V/bin/pip install -q --no-index --find-links /opt/veriftools/wheels z3-solver cvc5 crosshair-tool deal icontract jsonschema >/dev/null
fi
$V/bin/python - <<'PY'
import z3, cvc5, sys
s = z3.Solver(); x = z3.Int('x'); s.add(x > 1, x < 3); assert s.check() == z3.sat and s.model()[x].as_long() == 2
t = z3.String('t'); s = z3.Solver(); s.add(z3.Length(t) == 2, z3.PrefixOf(z3.StringVal('a'), t)); assert s.check() == z3.sat
print('setup ok: python', sys.version.split()[0], 'z3', z3.get_version_string(), 'cvc5', cvc5.__version__)
PY
